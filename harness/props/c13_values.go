package props

import (
	"fmt"
	"math"
	"sort"
	"strconv"
	"strings"

	"github.com/luthersystems/elps/lisp"

	"verifharness/c13x"
	"verifharness/fw"
)

// ---------------------------------------------------------------------------
// model of a JSON-representable lisp value

const (
	c13VNull = iota
	c13VBool
	c13VInt
	c13VFloat
	c13VStr
	c13VVec
	c13VList
	c13VMap
)

const (
	c13KSym = iota
	c13KStr
	c13KKw
)

type c13Key struct {
	kind int
	name string // the key's name as the map sees it (Str of the key value)

	// class is the family the NAME was drawn from, by construction (see
	// c13GenKey): "identifier", "json-literal", "literal-lookalike",
	// "number-lookalike", "lexable-punctuation", "unicode-letters",
	// "qualified", "json-punctuation", "empty" or "string:<piece class>".
	class string
	// lex: the name can be written as a symbol in source ('name).  A symbol
	// key whose name the reader cannot spell is made with the Go constructor
	// (an embedder's route) and reaches source-built values as a global.
	lex bool
	// bare: the symbol true / false written unquoted (it evaluates to itself).
	bare bool
	// respell: the key is put into the map twice, under both spellings of
	// the same name ('k and "k" are one key, docs/lang.md "Sorted Maps").
	//   1: first under the other spelling with a placeholder, then as written
	//   2: first as written with a placeholder, then under the other spelling
	// Which spelling the map then shows is the map's business and is not
	// judged; the name, and the value of the second write, are.
	respell int
}

// label names a key for finding keys and coverage: spelling + name family.
func (k c13Key) label() string {
	s := []string{"symbol-key", "string-key", "keyword-key"}[k.kind] + ":" + k.class
	if k.kind == c13KSym && !k.lex {
		s += ":unreadable-name"
	}
	if k.respell != 0 {
		s += ":respelled"
	}
	return s
}

// lvals returns the key as written and under the other spelling of its name.
func (k c13Key) lvals() (as, other *lisp.LVal) {
	if k.kind == c13KStr {
		return lisp.String(k.name), lisp.Symbol(k.name)
	}
	return lisp.Symbol(k.name), lisp.String(k.name)
}

type c13Val struct {
	kind  int
	b     bool
	i     int64
	f     float64
	s     string
	bad   bool // s is not valid UTF-8
	elems []*c13Val
	keys  []c13Key // insertion order; parallel to elems for maps
	class string
}

func (v *c13Val) leaf() bool { return v.kind < c13VVec }

type c13Stats struct {
	classes  map[string]bool
	keyKinds map[string]bool
	keyLabel map[string]bool // spelling + name family of every key that is not a plain identifier / ordinary string
	nKeys    int
	hasList  bool
	hasBad   bool
	depth    int
	nodes    int
	maxWidth int
}

func c13StatsOf(v *c13Val) *c13Stats {
	st := &c13Stats{classes: map[string]bool{}, keyKinds: map[string]bool{}, keyLabel: map[string]bool{}}
	var walk func(v *c13Val, d int)
	walk = func(v *c13Val, d int) {
		st.nodes++
		if d > st.depth {
			st.depth = d
		}
		if v.leaf() {
			st.classes[v.class] = true
			if v.bad {
				st.hasBad = true
			}
			return
		}
		if len(v.elems) > st.maxWidth {
			st.maxWidth = len(v.elems)
		}
		switch v.kind {
		case c13VList:
			st.hasList = true
			st.classes["list"] = true
		case c13VVec:
			st.classes["vector"] = true
			if len(v.elems) == 0 {
				st.classes["empty-vector"] = true
			}
		case c13VMap:
			st.classes["map"] = true
			if len(v.elems) == 0 {
				st.classes["empty-map"] = true
			}
			for _, k := range v.keys {
				st.keyKinds[[]string{"symbol-key", "string-key", "keyword-key"}[k.kind]] = true
				st.nKeys++
				if k.class != "identifier" && !(k.kind == c13KStr && strings.HasPrefix(k.class, "string:")) || k.respell != 0 {
					st.keyLabel[k.label()] = true
				}
				if !c13x.ValidUTF8([]byte(k.name)) {
					st.hasBad = true
				}
			}
		}
		for _, e := range v.elems {
			walk(e, d+1)
		}
	}
	walk(v, 0)
	return st
}

// ---------------------------------------------------------------------------
// leaf generators

var c13IntBoundaries = []int64{
	0, 1, -1, 2, 9, 10, 99, 100, 255, 256, 65535, 65536, 1 << 31, -(1 << 31), 1<<31 - 1, 1 << 32,
	1<<53 - 1, 1 << 53, 1<<53 + 1, 1<<53 + 2, 1<<53 + 3, -(1<<53 - 1), -(1 << 53), -(1<<53 + 1), -(1<<53 + 3),
	1 << 62, 1<<62 + 1, 1<<63 - 1, 1<<63 - 2, -(1 << 63), -(1<<63 - 1), 1<<63 - 1024, 1<<63 - 513, 1<<63 - 512, 1<<63 - 511,
	999999999999999, 1000000000000000, 9999999999999999, 10000000000000000, 99999999999999999, 999999999999999999, 1000000000000000000,
	1234567890123456789, -1234567890123456789, 9007199254740993, 9223372036854775000, 4611686018427387905,
}

func c13IntClass(i int64) string {
	a := i
	if a < 0 {
		a = -a
	}
	switch {
	case i == 0:
		return "int:zero"
	case i == math.MinInt64 || i == math.MaxInt64:
		return "int:int64-limit"
	case a < 1<<53-1:
		return "int:below-2^53"
	case a <= 1<<53+3:
		return "int:2^53-edge"
	case a >= 1<<63-1024:
		return "int:near-int64-limit"
	default:
		return "int:above-2^53"
	}
}

func c13GenInt(r *fw.RNG) *c13Val {
	var i int64
	switch r.Intn(6) {
	case 0, 1:
		i = fw.Pick(r, c13IntBoundaries)
	case 2:
		i = int64(r.Intn(2000)) - 1000
	case 3:
		i = int64(r.Uint64()) // any int64
	case 4:
		i = int64(r.Uint64() >> uint(1+r.Intn(63)))
		if r.Bool() {
			i = -i
		}
	default:
		// around 2^53 and 2^63 edges
		base := fw.Pick(r, []int64{1 << 53, 1<<63 - 1, -(1 << 53), -(1 << 63), 1 << 62, 1000000000000000000})
		d := int64(r.Intn(2049))
		if base > 0 {
			i = base - d
		} else {
			i = base + d
		}
	}
	return &c13Val{kind: c13VInt, i: i, class: c13IntClass(i)}
}

var c13FloatBoundaries = []float64{
	0, math.Copysign(0, -1), 1, -1, 0.5, 0.1, 0.2, 0.30000000000000004, 1.5, 3, 100, 1e6, 123.456, -123.456e-7,
	1e21, 9.999999999999999e20, 1.0000000000000001e21, 1e20, 1e19, 1.2345678901234567e18, 1.2345678901234567e19, 123456789012345680000.0,
	1e-6, 9.999999999999999e-7, 1.0000000000000002e-6, 1e-7, 1.5e-7, 1e-5,
	9007199254740992, 9007199254740994, 9007199254740991, 4503599627370496.5, 4503599627370497.5,
	9223372036854775808, 9223372036854774784, 9223372036854777856, 18446744073709551616, -9223372036854775808, -9223372036854777856,
	math.MaxFloat64, -math.MaxFloat64, math.SmallestNonzeroFloat64, -math.SmallestNonzeroFloat64, 2.2250738585072014e-308, 2.225073858507201e-308,
	1e300, 1e-300, 1e22, 1e23, 5e-324, 1.7976931348623157e308, 4.35, 0.000001234, 1e15, 1e16, 1e17, 123456789012345678,
	3.141592653589793, 2.718281828459045, 1.0000000000000002, 0.9999999999999999,
}

func c13FloatClass(f float64) string {
	a := math.Abs(f)
	switch {
	case f == 0 && math.Signbit(f):
		return "float:neg-zero"
	case f == 0:
		return "float:zero"
	case a < 2.2250738585072014e-308:
		return "float:subnormal"
	case a < 1e-6:
		return "float:below-1e-6-exponent-form"
	case a >= 1e21:
		return "float:at-or-above-1e21-exponent-form"
	case a >= 9223372036854775808:
		return "float:plain-digits-2^63..1e21"
	case a == math.Trunc(a) && a >= 1<<53:
		return "float:integral-2^53..2^63"
	case a == math.Trunc(a):
		return "float:integral-below-2^53"
	case a < 1:
		return "float:fraction-below-1"
	default:
		return "float:with-fraction"
	}
}

func c13GenFloat(r *fw.RNG) *c13Val {
	var f float64
	switch r.Intn(8) {
	case 0, 1:
		f = fw.Pick(r, c13FloatBoundaries)
	case 2:
		f = r.FloatBits()
	case 3:
		f = float64(int64(r.Uint64()>>uint(r.Intn(64)))) * math.Pow(10, float64(r.Intn(8)))
		if r.Bool() {
			f = -f
		}
	case 4:
		f = float64(r.Intn(100000)) / math.Pow(10, float64(r.Intn(8)))
	case 5:
		// neighbourhood of the format switches and of the integer limits
		base := fw.Pick(r, []float64{1e21, 1e-6, 9223372036854775808, 9007199254740992, 18446744073709551616, 1e19, 1e20})
		f = base
		for k := r.Intn(6) - 3; k != 0; {
			if k > 0 {
				f = math.Nextafter(f, math.Inf(1))
				k--
			} else {
				f = math.Nextafter(f, 0)
				k++
			}
		}
		if r.Chance(1, 4) {
			f = -f
		}
	case 6:
		// plain-digit floats between 2^63 and 1e21
		f = 9223372036854775808 + r.Float64()*(1e21-9223372036854775808)
		if r.Chance(1, 4) {
			f = -f
		}
	default:
		f = (r.Float64() - 0.5) * math.Pow(10, float64(r.Intn(40)-20))
	}
	if math.IsNaN(f) || math.IsInf(f, 0) {
		f = 1.5
	}
	return &c13Val{kind: c13VFloat, f: f, class: c13FloatClass(f)}
}

type c13Piece struct {
	class string
	gen   func(r *fw.RNG) string
}

var c13StrPieces = []c13Piece{
	{"ascii", func(r *fw.RNG) string {
		n := 1 + r.Intn(8)
		b := make([]byte, n)
		for i := range b {
			b[i] = byte(0x20 + r.Intn(0x5f))
			if b[i] == '"' || b[i] == '\\' || b[i] == '<' || b[i] == '>' || b[i] == '&' {
				b[i] = 'x'
			}
		}
		return string(b)
	}},
	{"quote-backslash", func(r *fw.RNG) string { return fw.Pick(r, []string{`"`, `\`, `\\`, `\"`, `"x"`, `\n`, `A`, `\ud800`}) }},
	{"solidus", func(r *fw.RNG) string { return fw.Pick(r, []string{"/", "</script>", "a/b"}) }},
	{"control", func(r *fw.RNG) string { return string([]byte{byte(r.Intn(0x20))}) }},
	{"short-escape-control", func(r *fw.RNG) string { return fw.Pick(r, []string{"\b", "\f", "\n", "\r", "\t"}) }},
	{"nul", func(r *fw.RNG) string { return "\x00" }},
	{"del", func(r *fw.RNG) string { return "\x7f" }},
	{"html", func(r *fw.RNG) string { return fw.Pick(r, []string{"<", ">", "&", "<>&", "&amp;"}) }},
	{"line-separator", func(r *fw.RNG) string { return fw.Pick(r, []string{"\u2028", "\u2029", "\u2027", "\u202a"}) }},
	{"2byte", func(r *fw.RNG) string { return string(c13x.AppendRune(nil, 0x80+r.Intn(0x780))) }},
	{"3byte", func(r *fw.RNG) string {
		for {
			v := 0x800 + r.Intn(0xF800)
			if v < 0xD800 || v > 0xDFFF {
				return string(c13x.AppendRune(nil, v))
			}
		}
	}},
	{"astral", func(r *fw.RNG) string { return string(c13x.AppendRune(nil, 0x10000+r.Intn(0x100000))) }},
	{"replacement-or-nonchar", func(r *fw.RNG) string {
		return string(c13x.AppendRune(nil, fw.Pick(r, []int{0xFFFD, 0xFFFF, 0xFFFE, 0xFEFF, 0xFDD0, 0x10FFFF, 0x1FFFF, 0xE000, 0xD7FF})))
	}},
	{"json-lookalike", func(r *fw.RNG) string {
		return fw.Pick(r, []string{"null", "true", "1e5", "[1,2]", `{"a":1}`, "-0", "9223372036854775808", ",", ":"})
	}},
	{"invalid-utf8", func(r *fw.RNG) string { return fw.Pick(r, c13x.BadUTF8Seqs).Bytes }},
}

var c13StrClassRank = []string{"invalid-utf8", "control", "nul", "short-escape-control", "line-separator", "astral", "replacement-or-nonchar",
	"html", "quote-backslash", "del", "3byte", "2byte", "solidus", "json-lookalike", "long", "ascii", "empty"}

func c13GenStrRaw(r *fw.RNG, allowBad bool) (s string, class string, bad bool) {
	n := 0
	switch r.Intn(8) {
	case 0:
		n = 0
	case 1, 2:
		n = 1
	default:
		n = 1 + r.Intn(6)
	}
	seen := map[string]bool{}
	var sb strings.Builder
	for i := 0; i < n; i++ {
		p := fw.Pick(r, c13StrPieces)
		if p.class == "invalid-utf8" && (!allowBad || !r.Chance(1, 3)) {
			p = c13StrPieces[0]
		}
		seen[p.class] = true
		sb.WriteString(p.gen(r))
	}
	if n > 0 && r.Chance(1, 60) {
		// long strings cross the encoder's buffer boundaries
		seen["long"] = true
		sb.WriteString(strings.Repeat(fw.Pick(r, []string{"a", "é", "\n", "\"", "😀"}), 200+r.Intn(3000)))
	}
	s = sb.String()
	if n == 0 {
		return s, "string:empty", false
	}
	bad = !c13x.ValidUTF8([]byte(s))
	for _, c := range c13StrClassRank {
		if seen[c] {
			return s, "string:" + c, bad
		}
	}
	return s, "string:ascii", bad
}

func c13GenStr(r *fw.RNG, allowBad bool) *c13Val {
	s, class, bad := c13GenStrRaw(r, allowBad)
	return &c13Val{kind: c13VStr, s: s, bad: bad, class: class}
}

func c13GenLeaf(r *fw.RNG, allowBad bool) *c13Val {
	switch k := r.Intn(16); {
	case k < 1:
		return &c13Val{kind: c13VNull, class: "nil"}
	case k < 2:
		return &c13Val{kind: c13VBool, b: true, class: "true"}
	case k < 3:
		return &c13Val{kind: c13VBool, b: false, class: "false"}
	case k < 7:
		return c13GenInt(r)
	case k < 11:
		return c13GenFloat(r)
	default:
		return c13GenStr(r, allowBad)
	}
}

// ---------------------------------------------------------------------------
// composite generator

type c13GenCfg struct {
	maxDepth int
	maxWidth int
	allowBad bool
}

var c13SymAlphabet = "abcdefghijklmnopqrstuvwxyz"

func c13GenSymName(r *fw.RNG) string {
	n := 1 + r.Intn(6)
	b := make([]byte, n)
	for i := range b {
		if i > 0 && r.Chance(1, 5) {
			b[i] = fw.Pick(r, []byte("0123456789-_"))
		} else {
			b[i] = c13SymAlphabet[r.Intn(len(c13SymAlphabet))]
		}
	}
	if b[n-1] == '-' {
		b[n-1] = 'z'
	}
	return string(b)
}

func c13GenValue(r *fw.RNG, cfg c13GenCfg, depth int) *c13Val {
	k := r.Intn(10)
	if depth >= cfg.maxDepth || k >= 5 {
		return c13GenLeaf(r, cfg.allowBad)
	}
	width := func() int {
		switch r.Intn(6) {
		case 0:
			return 0
		case 1:
			return 1
		}
		return r.Intn(cfg.maxWidth + 1)
	}
	switch {
	case k < 2:
		v := &c13Val{kind: c13VMap}
		n := width()
		used := map[string]bool{}
		for i := 0; i < n; i++ {
			key := c13GenKey(r, cfg.allowBad)
			if used[key.name] {
				continue
			}
			used[key.name] = true
			v.keys = append(v.keys, key)
			v.elems = append(v.elems, c13GenValue(r, cfg, depth+1))
		}
		return v
	case k < 4:
		v := &c13Val{kind: c13VVec}
		n := width()
		for i := 0; i < n; i++ {
			v.elems = append(v.elems, c13GenValue(r, cfg, depth+1))
		}
		return v
	default:
		v := &c13Val{kind: c13VList}
		n := 1 + r.Intn(cfg.maxWidth)
		for i := 0; i < n; i++ {
			v.elems = append(v.elems, c13GenValue(r, cfg, depth+1))
		}
		return v
	}
}

// Names that coincide with a token of JSON, of lisp or of another JSON
// dialect.  A key is a name whatever it looks like: `true` in key position is
// the member name "true", never the literal.  Every entry of the first four
// lists can be written as a symbol in source (checked against the reader).
var (
	c13JSONLiteralNames      = []string{"true", "false", "null"}
	c13LiteralLookalikeNames = []string{"nil", "NaN", "Infinity", "-Infinity", "undefined", "t", "T", "True", "TRUE", "False", "FALSE",
		"Null", "NULL", "None", "nan", "inf"}
	c13LexablePunctNames = []string{"+", "-", "*", "/", "=", "<", ">", "<=", ">=", "!=", "->", "->>", "a.b", "a/b", "a<b", "a>b", "a&b",
		"</script>", "&rest", "&optional", "a?", "a!", "$x", "%", "~a", "_", "-a", "a-", "a=b", ".", ".a", "+a", ".5"}
	c13UnicodeLetterNames = []string{"é", "ß", "中", "𝒳", "naïve", "Ünï", "日本語"}
	c13QualifiedNames     = []string{"lisp:car", "json:null", "a:true", "json:dump-string"}
	// not spellable as symbols: as strings, or as symbols made by the constructor
	c13NumberLookalikeNames = []string{"0", "-0", "1", "-1", "1e5", "1E5", "1.5", "0.0", "007", "+1", "1.", "0x10", "1e400", "-1e-400",
		"9223372036854775807", "9223372036854775808", "9007199254740993", "1000000000000000000000", "1e21", "12abc"}
	c13JSONPunctNames = []string{" ", ",", ":", "{", "}", "[", "]", "\"", "\\", "'", "()", "{}", "[]", "\"true\"", "'true", "true ", " true",
		"true,", "\"\"", "#t", "; c", "(a)", "a b", "\"a\":1", "\n", "\t", "\x00"}
)

func c13IdentLike(s string) bool {
	if s == "" {
		return false
	}
	for i := 0; i < len(s); i++ {
		c := s[i]
		if !((c >= 'a' && c <= 'z') || (c >= 'A' && c <= 'Z')) {
			return false
		}
	}
	return true
}

// c13GenSpecialKey draws a name from the token look-alike families and spells
// it as a symbol, a string or (identifier-like names) a keyword.
func c13GenSpecialKey(r *fw.RNG) c13Key {
	var k c13Key
	switch f := r.Intn(16); {
	case f < 5:
		k = c13Key{name: fw.Pick(r, c13JSONLiteralNames), class: "json-literal", lex: true}
	case f < 8:
		k = c13Key{name: fw.Pick(r, c13LiteralLookalikeNames), class: "literal-lookalike", lex: true}
	case f < 10:
		k = c13Key{name: fw.Pick(r, c13LexablePunctNames), class: "lexable-punctuation", lex: true}
	case f < 11:
		k = c13Key{name: fw.Pick(r, c13UnicodeLetterNames), class: "unicode-letters", lex: true}
	case f < 12:
		k = c13Key{name: fw.Pick(r, c13QualifiedNames), class: "qualified", lex: true}
	case f < 14:
		k = c13Key{name: fw.Pick(r, c13NumberLookalikeNames), class: "number-lookalike"}
	case f < 15:
		k = c13Key{name: fw.Pick(r, c13JSONPunctNames), class: "json-punctuation"}
	default:
		k = c13Key{name: "", class: "empty"}
	}
	switch sp := r.Intn(8); {
	case sp < 4:
		k.kind = c13KSym
		if (k.name == "true" || k.name == "false") && r.Bool() {
			k.bare = true
		}
	case sp < 5 && c13IdentLike(k.name):
		k.kind, k.name = c13KKw, ":"+k.name
	default:
		k.kind, k.lex = c13KStr, false
	}
	return k
}

func c13GenKey(r *fw.RNG, allowBad bool) c13Key {
	var k c13Key
	switch r.Intn(8) {
	case 0, 1:
		k = c13Key{kind: c13KSym, name: c13GenSymName(r), class: "identifier", lex: true}
	case 2:
		k = c13Key{kind: c13KKw, name: ":" + c13GenSymName(r), class: "identifier", lex: true}
	case 3:
		k = c13GenSpecialKey(r)
	default:
		s, class, _ := c13GenStrRaw(r, allowBad)
		if len(s) > 64 && !allowBad {
			s, class = s[:0]+"k"+strconv.Itoa(r.Intn(100)), "string:ascii"
		}
		k = c13Key{kind: c13KStr, name: s, class: class}
		if r.Chance(1, 8) && c13x.ValidUTF8([]byte(s)) {
			// the same name held by a symbol the reader could not have produced
			// (lisp.Symbol is an embedder's constructor)
			k.kind = c13KSym
		}
	}
	// a name from the generic families may coincide with a token too: the
	// family is a function of the name
	bare := strings.TrimPrefix(k.name, ":")
	if k.kind != c13KKw {
		bare = k.name
	}
	for _, fam := range []struct {
		names []string
		class string
	}{{c13JSONLiteralNames, "json-literal"}, {c13LiteralLookalikeNames, "literal-lookalike"}} {
		for _, n := range fam.names {
			if n == bare && k.class != fam.class {
				k.class = fam.class
				k.lex = k.kind != c13KStr
			}
		}
	}
	if r.Chance(1, 8) && c13x.ValidUTF8([]byte(k.name)) {
		k.respell = 1 + r.Intn(2)
	}
	return k
}

// c13GenCase picks the shape of a value case.
func c13GenCase(r *fw.RNG) (v *c13Val, shape string) {
	switch k := r.Intn(100); {
	case k < 22:
		return c13GenLeaf(r, r.Chance(1, 4)), "leaf"
	case k < 30:
		// one container of leaves of one kind
		v = &c13Val{kind: c13VVec}
		n := 1 + r.Intn(12)
		g := fw.Pick(r, []func(*fw.RNG) *c13Val{c13GenInt, c13GenFloat, func(r *fw.RNG) *c13Val { return c13GenStr(r, false) }})
		for i := 0; i < n; i++ {
			v.elems = append(v.elems, g(r))
		}
		return v, "leaf-vector"
	case k < 38:
		// a map whose keys stress the ordering
		v = &c13Val{kind: c13VMap}
		used := map[string]bool{}
		n := 2 + r.Intn(10)
		for i := 0; i < n; i++ {
			var key c13Key
			switch r.Intn(5) {
			case 0:
				key = c13Key{kind: c13KStr, name: string(c13x.AppendRune(nil, fw.Pick(r, []int{0xE000, 0xFFFF, 0x10000, 0x10FFFF, 0xD7FF, 0xFFFD, 0x7f, 0x80, 0x7ff, 0x800}))), class: "string:ordering"}
			case 1:
				key = c13Key{kind: c13KStr, name: fw.Pick(r, []string{"", " ", "a", "A", "a ", "aa", "a\x00", "a\x01", "B", "b", "_", "-", "0", "10", "9", ":a", "\"", "\\", "\x1f", "\x7f"}), class: "string:ordering"}
			default:
				key = c13GenKey(r, false)
			}
			if used[key.name] {
				continue
			}
			used[key.name] = true
			v.keys = append(v.keys, key)
			v.elems = append(v.elems, c13GenLeaf(r, false))
		}
		return v, "ordering-map"
	case k < 39:
		// wide
		kind := fw.Pick(r, []int{c13VVec, c13VList, c13VMap})
		v = &c13Val{kind: kind}
		n := 200 + r.Intn(1801)
		used := map[string]bool{}
		for i := 0; i < n; i++ {
			if kind == c13VMap {
				key := c13GenKey(r, false)
				if used[key.name] {
					key = c13Key{kind: key.kind, name: key.name + strconv.Itoa(i), class: "renamed"}
					if used[key.name] {
						continue
					}
				}
				used[key.name] = true
				v.keys = append(v.keys, key)
			}
			v.elems = append(v.elems, c13GenLeaf(r, false))
		}
		return v, "wide"
	case k < 41:
		// deep chain (crosses the encoder's 64-level guard in about half)
		depth := 10 + r.Intn(110)
		v = c13GenLeaf(r, false)
		for i := 0; i < depth; i++ {
			switch r.Intn(3) {
			case 0:
				v = &c13Val{kind: c13VVec, elems: []*c13Val{v}}
			case 1:
				v = &c13Val{kind: c13VList, elems: []*c13Val{v}}
			default:
				v = &c13Val{kind: c13VMap, keys: []c13Key{c13GenKey(r, false)}, elems: []*c13Val{v}}
			}
			if r.Chance(1, 6) && v.kind != c13VMap {
				v.elems = append(v.elems, c13GenLeaf(r, false))
			}
		}
		return v, "deep"
	case k < 46:
		return c13GenValue(r, c13GenCfg{maxDepth: 3, maxWidth: 4, allowBad: true}, 0), "invalid-utf8-mix"
	default:
		return c13GenValue(r, c13GenCfg{maxDepth: 2 + r.Intn(4), maxWidth: 2 + r.Intn(5)}, 0), "nested"
	}
}

// ---------------------------------------------------------------------------
// building the real value

// c13BuildGo builds the value with the package's Go constructors.  order, if
// non-nil, permutes map insertion; vectorise turns lists into vectors.
func c13BuildGo(v *c13Val, r *fw.RNG, vectorise bool) *lisp.LVal {
	switch v.kind {
	case c13VNull:
		return lisp.Nil()
	case c13VBool:
		return lisp.Bool(v.b)
	case c13VInt:
		return lisp.Int(int(v.i))
	case c13VFloat:
		return lisp.Float(v.f)
	case c13VStr:
		return lisp.String(v.s)
	case c13VVec, c13VList:
		cells := make([]*lisp.LVal, len(v.elems))
		for i, e := range v.elems {
			cells[i] = c13BuildGo(e, r, vectorise)
		}
		if v.kind == c13VList && !vectorise {
			return lisp.QExpr(cells)
		}
		if len(cells) == 0 {
			return lisp.Array(lisp.QExpr([]*lisp.LVal{lisp.Int(0)}), nil)
		}
		return lisp.Array(nil, cells)
	default:
		m := lisp.SortedMap()
		idx := make([]int, len(v.elems))
		for i := range idx {
			idx[i] = i
		}
		if r != nil {
			fw.Shuffle(r, idx)
		}
		set := func(k, val *lisp.LVal) {
			if rc := m.Map().Set(k, val); rc != nil && rc.Type == lisp.LError {
				panic("c13: map set: " + rc.String())
			}
		}
		for _, i := range idx {
			as, other := v.keys[i].lvals()
			val := c13BuildGo(v.elems[i], r, vectorise)
			switch v.keys[i].respell {
			case 1:
				set(other, lisp.Int(0))
				set(as, val)
			case 2:
				set(as, lisp.Int(0))
				set(other, val)
			default:
				set(as, val)
			}
		}
		return m
	}
}

func c13SimpleStr(s string) bool {
	if len(s) > 40 {
		return false
	}
	for i := 0; i < len(s); i++ {
		c := s[i]
		if !(c == ' ' || c == '_' || c == '-' || (c >= '0' && c <= '9') || (c >= 'a' && c <= 'z') || (c >= 'A' && c <= 'Z')) {
			return false
		}
	}
	return true
}

// c13BuildSrc renders a lisp expression that constructs the value through the
// real sorted-map / vector / list builtins; leaves that are not trivially
// spellable are bound as globals first.
func c13BuildSrc(c *c13RT, v *c13Val, r *fw.RNG) string {
	var sb strings.Builder
	ng := 0
	bind := func(lv *lisp.LVal) string {
		name := "c13-g" + strconv.Itoa(ng)
		ng++
		c.set(name, lv)
		return name
	}
	var emit func(v *c13Val)
	emit = func(v *c13Val) {
		switch v.kind {
		case c13VNull:
			sb.WriteString("()")
		case c13VBool:
			sb.WriteString(c13Bool(v.b))
		case c13VInt:
			if v.i > -(1<<62) && v.i < 1<<62 {
				sb.WriteString(strconv.FormatInt(v.i, 10))
			} else {
				sb.WriteString(bind(lisp.Int(int(v.i))))
			}
		case c13VFloat:
			sb.WriteString(bind(lisp.Float(v.f)))
		case c13VStr:
			if c13SimpleStr(v.s) {
				sb.WriteString(`"` + v.s + `"`)
			} else {
				sb.WriteString(bind(lisp.String(v.s)))
			}
		case c13VVec, c13VList:
			if v.kind == c13VVec {
				sb.WriteString("(vector")
			} else {
				sb.WriteString("(list")
			}
			for _, e := range v.elems {
				sb.WriteByte(' ')
				emit(e)
			}
			sb.WriteByte(')')
		default:
			idx := make([]int, len(v.elems))
			for i := range idx {
				idx[i] = i
			}
			if r != nil {
				fw.Shuffle(r, idx)
			}
			// spell writes the key as a symbol (sym) or as a string
			spell := func(k c13Key, sym bool) {
				switch {
				case sym && k.bare:
					sb.WriteString(k.name)
				case sym && k.kind == c13KKw:
					sb.WriteString(k.name)
				case sym && k.lex:
					sb.WriteString("'" + k.name)
				case sym:
					sb.WriteString(bind(lisp.Symbol(k.name)))
				case c13SimpleStr(k.name):
					sb.WriteString(`"` + k.name + `"`)
				default:
					sb.WriteString(bind(lisp.String(k.name)))
				}
			}
			// a respelled key is written a second time with assoc! (in place)
			// or assoc (on a copy of the map) around the constructor call
			var again []int
			for _, i := range idx {
				if v.keys[i].respell != 0 {
					again = append(again, i)
				}
			}
			for k := len(again) - 1; k >= 0; k-- {
				if (again[k]+len(v.keys[again[k]].name))%2 == 0 {
					sb.WriteString("(assoc! ")
				} else {
					sb.WriteString("(assoc ")
				}
			}
			sb.WriteString("(sorted-map")
			for _, i := range idx {
				sb.WriteByte(' ')
				k := v.keys[i]
				spell(k, (k.kind != c13KStr) != (k.respell == 1))
				sb.WriteByte(' ')
				if k.respell != 0 {
					sb.WriteString("0")
				} else {
					emit(v.elems[i])
				}
			}
			sb.WriteByte(')')
			for _, i := range again {
				sb.WriteByte(' ')
				k := v.keys[i]
				spell(k, (k.kind != c13KStr) != (k.respell == 2))
				sb.WriteByte(' ')
				emit(v.elems[i])
				sb.WriteByte(')')
			}
		}
	}
	emit(v)
	return sb.String()
}

// ---------------------------------------------------------------------------
// reading a dump back with the independent decoder

type c13DumpMismatch struct {
	why  string
	leaf *c13Val
	kind string // "differs", "unsorted", "duplicate"
}

func c13DecOf(i int64) c13x.Num {
	n, _ := c13x.ParseNum(strconv.FormatInt(i, 10))
	return n
}

// c13NumLitIs reports whether the literal lit denotes the model number v
// (int: exactly; float: it reads back to the same float64).
func c13NumLitIs(lit string, v *c13Val) (bool, string) {
	n, ok := c13x.ParseNum(lit)
	if !ok {
		return false, "not a number literal"
	}
	if v.kind == c13VInt {
		q, ok := n.Rat()
		if !ok {
			return false, "absurd exponent"
		}
		want, _ := c13DecOf(v.i).Rat()
		if q.Cmp(want) != 0 {
			return false, "denotes another integer"
		}
		return true, ""
	}
	f, cl := n.Nearest()
	if cl == c13x.FloatOverflow {
		return false, "overflows float64"
	}
	if f != v.f { // +0 == -0: the sign of zero is not judged on the dump side
		return false, fmt.Sprintf("reads back as %s, the value is %s", c13FloatStr(f), c13FloatStr(v.f))
	}
	return true, ""
}

func c13WantStr(v *c13Val) string {
	if v.bad {
		s, _ := c13x.ReplaceBadUTF8(v.s)
		return c13x.CollapseFFFD(s)
	}
	return v.s
}

// c13CmpDump compares the independent decoding of a dump with the model.
// stringNums says the dump was made with :string-numbers true.
func c13CmpDump(v *c13Val, n *c13x.Node, stringNums bool, path string) *c13DumpMismatch {
	mm := func(kind, f string, a ...any) *c13DumpMismatch {
		return &c13DumpMismatch{why: "at " + path + ": " + fmt.Sprintf(f, a...), leaf: v, kind: kind}
	}
	switch v.kind {
	case c13VNull:
		if n.Kind != c13x.KNull {
			return mm("differs", "nil was written as a %s", n.Kind)
		}
	case c13VBool:
		if n.Kind != c13x.KBool || n.Bool != v.b {
			return mm("differs", "%v was written as %s", v.b, n.Kind)
		}
	case c13VInt, c13VFloat:
		lit := n.Lit
		if stringNums {
			if n.Kind != c13x.KStr {
				return mm("differs", "number written as a %s under :string-numbers", n.Kind)
			}
			lit = n.Str
		} else if n.Kind != c13x.KNum {
			return mm("differs", "number written as a %s", n.Kind)
		}
		if ok, why := c13NumLitIs(lit, v); !ok {
			return mm("differs", "number written as %s: %s", lit, why)
		}
	case c13VStr:
		if n.Kind != c13x.KStr {
			return mm("differs", "string written as a %s", n.Kind)
		}
		got := n.Str
		if v.bad {
			got = c13x.CollapseFFFD(got)
		}
		if got != c13WantStr(v) {
			return mm("differs", "string %s reads back as %s", c13Q(v.s), c13Q(n.Str))
		}
	case c13VVec, c13VList:
		if n.Kind != c13x.KArr {
			return mm("differs", "sequence written as a %s", n.Kind)
		}
		if len(n.Elems) != len(v.elems) {
			return mm("differs", "sequence of %d written with %d elements", len(v.elems), len(n.Elems))
		}
		for i, e := range v.elems {
			if x := c13CmpDump(e, n.Elems[i], stringNums, fmt.Sprintf("%s[%d]", path, i)); x != nil {
				return x
			}
		}
	case c13VMap:
		if n.Kind != c13x.KObj {
			return mm("differs", "map written as a %s", n.Kind)
		}
		if len(n.Members) != len(v.elems) {
			return mm("differs", "map of %d entries written with %d members", len(v.elems), len(n.Members))
		}
		allValid := true
		want := map[string]*c13Val{}
		for i, k := range v.keys {
			name := k.name
			if !c13x.ValidUTF8([]byte(name)) {
				allValid = false
				name, _ = c13x.ReplaceBadUTF8(name)
				name = c13x.CollapseFFFD(name)
			}
			want[name] = v.elems[i]
		}
		if allValid {
			byteSorted, u16Sorted := true, true
			for i := 1; i < len(n.Members); i++ {
				a, b := n.Members[i-1].Key.Str, n.Members[i].Key.Str
				if a == b {
					return mm("duplicate", "name %s written twice", c13Q(a))
				}
				if !(a < b) {
					byteSorted = false
				}
				if !c13x.UTF16Less(a, b) {
					u16Sorted = false
				}
			}
			if !byteSorted && !u16Sorted {
				var names []string
				for _, m := range n.Members {
					names = append(names, c13Q(m.Key.Str))
				}
				return mm("unsorted", "object names are not in sorted order: %s", strings.Join(names, " "))
			}
		}
		for i, m := range n.Members {
			name := m.Key.Str
			if !allValid {
				name = c13x.CollapseFFFD(name)
			}
			e, ok := want[name]
			if !ok {
				return mm("differs", "member name %s is not a key of the map", c13Q(m.Key.Str))
			}
			if !allValid && len(want) != len(v.elems) {
				continue // names merged by replacement: values cannot be paired
			}
			if x := c13CmpDump(e, m.Val, stringNums, path+"."+c13Q(name)); x != nil {
				return x
			}
			_ = i
		}
	}
	return nil
}

// ---------------------------------------------------------------------------
// comparing load(dump v) with v (list ≡ vector, equal? number semantics)

func c13CmpLoaded(v *c13Val, got *lisp.LVal, ei bool, path string) *c13DumpMismatch {
	mm := func(f string, a ...any) *c13DumpMismatch {
		return &c13DumpMismatch{why: "at " + path + ": " + fmt.Sprintf(f, a...), leaf: v, kind: "differs"}
	}
	if got == nil {
		return mm("no value")
	}
	switch v.kind {
	case c13VNull:
		if !got.IsNil() {
			return mm("nil loaded back as %s %s", c13TypeName(got), c13Show(got))
		}
	case c13VBool:
		if got.Type != lisp.LSymbol || got.Str != c13Bool(v.b) {
			return mm("%v loaded back as %s %s", v.b, c13TypeName(got), c13Show(got))
		}
	case c13VInt:
		if ei {
			if got.Type != lisp.LInt || int64(got.Int) != v.i {
				return &c13DumpMismatch{why: fmt.Sprintf("at %s: the int %d loaded back under :exact-integers as %s %s", path, v.i, c13TypeName(got), c13Show(got)), leaf: v, kind: "inexact"}
			}
			return nil
		}
		if got.Type != lisp.LFloat {
			return mm("the int %d loaded back (default mode) as %s %s", v.i, c13TypeName(got), c13Show(got))
		}
		if f, _ := c13DecOf(v.i).Nearest(); got.Float != f {
			return mm("the int %d loaded back as the float %s, not equal? to it (nearest is %s)", v.i, c13FloatStr(got.Float), c13FloatStr(f))
		}
	case c13VFloat:
		switch got.Type {
		case lisp.LFloat:
			if got.Float != v.f {
				return mm("the float %s loaded back as %s", c13FloatStr(v.f), c13FloatStr(got.Float))
			}
		case lisp.LInt:
			if !ei {
				return mm("the float %s loaded back as an int in default mode", c13FloatStr(v.f))
			}
			if f, _ := c13DecOf(int64(got.Int)).Nearest(); f != v.f {
				return mm("the float %s loaded back as the int %d, which is not equal? to it", c13FloatStr(v.f), got.Int)
			}
		default:
			return mm("the float %s loaded back as %s %s", c13FloatStr(v.f), c13TypeName(got), c13Show(got))
		}
	case c13VStr:
		if got.Type != lisp.LString {
			return mm("string loaded back as %s %s", c13TypeName(got), c13Show(got))
		}
		g := got.Str
		if v.bad {
			g = c13x.CollapseFFFD(g)
		}
		if g != c13WantStr(v) {
			return mm("string %s loaded back as %s", c13Q(v.s), c13Q(got.Str))
		}
	case c13VVec, c13VList:
		if got.Type != lisp.LArray || len(got.Cells) != 2 || got.Cells[0].Len() != 1 {
			return mm("sequence loaded back as %s %s", c13TypeName(got), c13Show(got))
		}
		cells := got.Cells[1].Cells
		if len(cells) != len(v.elems) {
			return mm("sequence of %d loaded back with %d elements", len(v.elems), len(cells))
		}
		for i, e := range v.elems {
			if x := c13CmpLoaded(e, cells[i], ei, fmt.Sprintf("%s[%d]", path, i)); x != nil {
				return x
			}
		}
	case c13VMap:
		if got.Type != lisp.LSortMap {
			return mm("map loaded back as %s %s", c13TypeName(got), c13Show(got))
		}
		ents := got.MapEntries()
		if ents.Type == lisp.LError {
			return mm("map entries: %s", ents)
		}
		have := map[string]*lisp.LVal{}
		for _, p := range ents.Cells {
			have[p.Cells[0].Str] = p.Cells[1]
		}
		anyBad := false
		for _, k := range v.keys {
			if !c13x.ValidUTF8([]byte(k.name)) {
				anyBad = true
			}
		}
		if anyBad {
			return nil // names without a JSON representation: nothing demanded of the pairing
		}
		if len(have) != len(v.elems) {
			return mm("map of %d entries loaded back with %d", len(v.elems), len(have))
		}
		for i, k := range v.keys {
			g, ok := have[k.name]
			if !ok {
				return mm("key %s missing after load", c13Q(k.name))
			}
			if x := c13CmpLoaded(v.elems[i], g, ei, path+"."+c13Q(k.name)); x != nil {
				return x
			}
		}
	}
	return nil
}

// c13CharClass names the class of one character (or one invalid byte) of a
// string, for finding keys.
func c13CharClass(ch string) string {
	b := []byte(ch)
	if !c13x.ValidUTF8(b) {
		return "invalid-utf8"
	}
	if len(b) == 1 {
		c := b[0]
		switch {
		case c == 0:
			return "nul"
		case c == '\b' || c == '\f' || c == '\n' || c == '\r' || c == '\t':
			return "short-escape-control"
		case c < 0x20:
			return "control"
		case c == 0x7f:
			return "del"
		case c == '"' || c == '\\':
			return "quote-backslash"
		case c == '<' || c == '>' || c == '&':
			return "html"
		case c == '/':
			return "solidus"
		}
		return "ascii"
	}
	switch len(b) {
	case 2:
		return "2byte"
	case 4:
		return "astral"
	}
	if ch == "\u2028" || ch == "\u2029" {
		return "line-separator"
	}
	if ch == "\ufffd" || ch == "\uffff" || ch == "\ufffe" || ch == "\ufeff" {
		return "replacement-or-nonchar"
	}
	return "3byte"
}

// c13SplitChars cuts s into well-formed UTF-8 characters and single invalid
// bytes.
func c13SplitChars(s string) []string {
	var out []string
	b := []byte(s)
	for i := 0; i < len(b); {
		n := 1
		for k := 4; k >= 2; k-- {
			if i+k <= len(b) && b[i] >= 0x80 && c13x.ValidUTF8(b[i:i+k]) && !c13x.ValidUTF8(b[i:i+k-1]) {
				n = k
				break
			}
		}
		out = append(out, string(b[i:i+n]))
		i += n
	}
	return out
}

// c13StringCulprit narrows a failing string down to the class of the first
// single character whose dump does not read back; "" if no single character
// reproduces the failure.
func c13StringCulprit(c *c13RT, s string) string {
	seen := map[string]bool{}
	for _, ch := range c13SplitChars(s) {
		if seen[ch] || len(seen) > 300 {
			continue
		}
		seen[ch] = true
		c.set("c13-leaf", lisp.String(ch))
		t, lv := c.eval("(json:dump-string c13-leaf)")
		if t.IsErr || lv.Type != lisp.LString {
			return c13CharClass(ch)
		}
		doc := c13x.Parse([]byte(lv.Str))
		bad := !c13x.ValidUTF8([]byte(ch))
		v := &c13Val{kind: c13VStr, s: ch, bad: bad}
		if !doc.Valid || !doc.UTF8 || c13CmpDump(v, doc.Root, false, "$") != nil {
			return c13CharClass(ch)
		}
		t2, lv2 := c.eval("(json:load-string (json:dump-string c13-leaf))")
		if !bad && (t2.IsErr || lv2.Type != lisp.LString || lv2.Str != ch) {
			return c13CharClass(ch)
		}
	}
	return ""
}

// c13AllStrings lists every string of the model, names included.
func c13AllStrings(v *c13Val, out *[]string) {
	if v.kind == c13VStr {
		*out = append(*out, v.s)
	}
	for _, k := range v.keys {
		*out = append(*out, k.name)
	}
	for _, e := range v.elems {
		c13AllStrings(e, out)
	}
}

// c13RefineStringKey replaces a coarse class by the culprit character class
// when some string of the value fails on its own.
func c13RefineStringKey(c *c13RT, v *c13Val, x *c13DumpMismatch, coarse string) string {
	var strs []string
	if x != nil && x.leaf != nil && x.leaf.kind == c13VStr {
		strs = []string{x.leaf.s}
	} else if x == nil || x.leaf == nil || x.leaf.kind == c13VMap {
		c13AllStrings(v, &strs)
	}
	for i, s := range strs {
		if i > 200 {
			break
		}
		if cl := c13StringCulprit(c, s); cl != "" {
			return "string-char:" + cl
		}
	}
	return coarse
}

// ---------------------------------------------------------------------------
// the value case

func c13LeafClassOf(x *c13DumpMismatch) string {
	if x == nil || x.leaf == nil {
		return "composite"
	}
	if x.leaf.leaf() {
		return x.leaf.class
	}
	return []string{"", "", "", "", "", "vector", "list", "map"}[x.leaf.kind]
}

func c13ModelStr(v *c13Val) string {
	var sb strings.Builder
	var walk func(v *c13Val)
	walk = func(v *c13Val) {
		if sb.Len() > 1500 {
			return
		}
		switch v.kind {
		case c13VNull:
			sb.WriteString("nil")
		case c13VBool:
			sb.WriteString(c13Bool(v.b))
		case c13VInt:
			fmt.Fprintf(&sb, "%d", v.i)
		case c13VFloat:
			fmt.Fprintf(&sb, "float(%v/%016x)", v.f, math.Float64bits(v.f))
		case c13VStr:
			sb.WriteString(c13Q(v.s))
		case c13VVec, c13VList:
			sb.WriteString(map[int]string{c13VVec: "(vector", c13VList: "(list"}[v.kind])
			for _, e := range v.elems {
				sb.WriteByte(' ')
				walk(e)
			}
			sb.WriteByte(')')
		default:
			sb.WriteString("(sorted-map")
			for i, k := range v.keys {
				sb.WriteByte(' ')
				switch {
				case k.kind == c13KSym && k.bare:
					sb.WriteString(k.name)
				case k.kind == c13KSym && k.lex:
					sb.WriteString("'" + k.name)
				case k.kind == c13KSym:
					sb.WriteString("#<symbol named " + c13Q(k.name) + ">")
				case k.kind == c13KKw:
					sb.WriteString(k.name)
				default:
					sb.WriteString(c13Q(k.name))
				}
				switch k.respell {
				case 1:
					sb.WriteString("#<set first under the other spelling>")
				case 2:
					sb.WriteString("#<set again under the other spelling>")
				}
				sb.WriteByte(' ')
				walk(v.elems[i])
			}
			sb.WriteByte(')')
		}
	}
	walk(v)
	if sb.Len() > 1500 {
		return sb.String()[:1500] + "…"
	}
	return sb.String()
}

func c13RunValueCase(w *fw.W, c *c13RT, idx int) {
	r := w.RNG(idx, "value")
	v, shape := c13GenCase(r)
	st := c13StatsOf(v)
	build := "go"
	if r.Chance(1, 2) {
		build = "src"
	}
	w.Max("c13_max_value_depth", int64(st.depth))
	w.Max("c13_max_value_width", int64(st.maxWidth))
	w.Max("c13_max_value_nodes", int64(st.nodes))
	classes := c13SortedKeys(st.classes)
	for _, cl := range classes {
		w.SetAdd("c13_value_classes", cl)
	}
	model := c13ModelStr(v)
	detail := func(extra string) string {
		return fmt.Sprintf("value (%s, built via %s): %s\n%s", shape, build, model, extra)
	}
	// ---- construct the value, a twin with permuted insertion order, and a
	// vectorised copy (lists turned into vectors) for the equal? claim
	r2 := w.RNG(idx, "twin")
	if build == "src" {
		src := c13BuildSrc(c, v, nil)
		t, lv := c.eval(src)
		if t.IsErr {
			// the construction itself failed: not a C13 matter; fall back
			w.Count("c13_src_build_failed", 1)
			w.Logf("src build failed: %s\n%s", t.Value, src)
			build = "go"
		} else {
			c.set("c13-v", lv)
		}
	}
	if build == "go" {
		c.set("c13-v", c13BuildGo(v, nil, false))
	}
	c.set("c13-v2", c13BuildGo(v, r2, false))
	c.set("c13-v3", c13BuildGo(v, nil, true))
	ckBase := "value|" + shape + "|" + build + "|" + strings.Join(c13SortedKeys(st.keyKinds), ",") + "|" + strings.Join(c13Cap(c13SortedKeys(st.keyLabel), 2), ",")
	for kl := range st.keyLabel {
		w.SetAdd("c13_key_classes", kl)
	}

	// ---- 0. histories (c13_history.go) are run on a quarter of the values;
	// whether the value is equal? to a fresh twin is asked before any dump
	rh := w.RNG(idx, "history")
	history, preEqual := rh.Chance(1, 4), false
	if history {
		c.set("c13-v4", c13BuildGo(v, nil, false))
		te, ev := c.eval("(equal? c13-v c13-v4)")
		w.Eval(1)
		preEqual = !te.IsErr && ev.Type == lisp.LSymbol && ev.Str == "true"
	}

	// ---- 1. dump: success, determinism, forms agree
	dump := func(expr string) (string, bool) {
		t, lv := c.eval(expr)
		w.Eval(1)
		if t.IsErr {
			w.Violation("dump-failed:"+c13Blame(c, v, c13FirstFailingLeaf(c, v, func(lv string) string { return "(json:dump-string " + lv + ")" })),
				"json:dump of a JSON-representable value failed: "+t.Cond, detail(expr+"\n=> "+t.Value))
			return "", false
		}
		switch lv.Type {
		case lisp.LString:
			return lv.Str, true
		case lisp.LBytes:
			return string(lv.Bytes()), true
		}
		w.Violation("dump-wrong-result-type", "dump returned "+c13TypeName(lv), detail(expr))
		return "", false
	}
	d1, ok := dump("(json:dump-string c13-v)")
	if !ok {
		return
	}
	forms := []struct{ name, expr string }{
		{"second-dump-string", "(json:dump-string c13-v)"},
		{"dump-bytes", "(json:dump-bytes c13-v)"},
		{"permuted-insertion-order", "(json:dump-string c13-v2)"},
		{"message-bytes-of-dump-message", "(json:message-bytes (json:dump-message c13-v))"},
		{"explicit-string-numbers-false", "(json:dump-string c13-v :string-numbers false)"},
	}
	for _, f := range forms {
		d, ok := dump(f.expr)
		if !ok {
			return
		}
		if d != d1 {
			w.Violation("dump-nondeterministic:"+f.name, "two dumps of the same value differ ("+f.name+")",
				detail(fmt.Sprintf("dump-string: %s\n%s: %s", c13Q(d1), f.name, c13Q(d))))
			return
		}
	}
	w.Max("c13_max_dump_bytes", int64(len(d1)))

	// ---- 2. valid JSON, read back by the independent decoder
	doc := c13x.Parse([]byte(d1))
	if !doc.Valid || !doc.UTF8 {
		cls := c13FirstLeafWhere(c, v, func(leaf *c13Val) bool {
			t, lv := c.eval("(json:dump-string c13-leaf)")
			if t.IsErr || lv.Type != lisp.LString {
				return true
			}
			d := c13x.Parse([]byte(lv.Str))
			return !d.Valid || !d.UTF8
		})
		w.Violation("dump-invalid-json:"+c13Blame(c, v, cls), "json:dump-string produced a document that is not valid JSON",
			detail(fmt.Sprintf("dump: %s\nrecognizer: valid=%v utf8=%v %s at %d", c13Q(d1), doc.Valid, doc.UTF8, doc.Err, doc.ErrOff)))
		return
	}
	if x := c13CmpDump(v, doc.Root, false, "$"); x != nil {
		key := "dump-readback-differs:" + c13Blame(c, v, c13RefineStringKey(c, v, x, c13LeafClassOf(x)))
		switch x.kind {
		case "unsorted", "duplicate":
			// a name that does not survive the dump shows up as disorder:
			// attribute it to the string defect when there is one
			if cl := c13RefineStringKey(c, v, nil, ""); cl != "" {
				key = "dump-readback-differs:" + cl
			} else if k := c13KeyCulprit(c, v); k != "" {
				key = "dump-readback-differs:" + k
			} else if x.kind == "unsorted" {
				key = "dump-keys-unsorted"
			} else {
				key = "dump-duplicate-names"
			}
		}
		w.Violation(key, "an independent decoder does not read the dump back to the same data: "+x.why, detail("dump: "+c13Q(d1)+"\n"+x.why))
		return
	}

	// ---- 3. :string-numbers dump
	snExpr := "(json:dump-string c13-v :string-numbers true)"
	if r.Chance(1, 4) {
		c.dirty = true
		c.eval("(json:use-string-numbers true)")
		snExpr = "(json:dump-" + fw.Pick(r, []string{"string", "bytes"}) + " c13-v)"
	}
	dsn, ok := dump(snExpr)
	c.resetDefaults()
	if !ok {
		return
	}
	docSN := c13x.Parse([]byte(dsn))
	if !docSN.Valid || !docSN.UTF8 {
		w.Violation(strings.TrimSuffix("dump-invalid-json:string-numbers:"+c13Blame(c, v, ""), ":"), "dump under :string-numbers is not valid JSON", detail("dump: "+c13Q(dsn)+"\n"+docSN.Err))
		return
	}
	if x := c13CmpDump(v, docSN.Root, true, "$"); x != nil {
		w.Violation("dump-readback-differs:string-numbers:"+c13Blame(c, v, c13RefineStringKey(c, v, x, c13LeafClassOf(x))), "dump under :string-numbers does not read back to the same data: "+x.why, detail("dump: "+c13Q(dsn)))
		return
	}

	// ---- 4. load accepts what dump produced, and agrees with the decoder
	c13CheckDoc(w, c, r, c13DocCase{doc: []byte(d1), origin: "dump", name: "dump-output"})
	if r.Chance(1, 3) {
		c13CheckDoc(w, c, r, c13DocCase{doc: []byte(dsn), origin: "dump", name: "dump-output-string-numbers"})
	}

	// ---- 5. load(dump v) is v
	c.set("c13-d", lisp.String(d1))
	c.set("c13-db", lisp.Bytes([]byte(d1)))
	for _, ei := range []bool{false, true} {
		mode := "default"
		kw := ""
		if ei {
			mode, kw = "exact-integers", " :exact-integers true"
		}
		loadExpr := fw.Pick(r, []string{
			"(json:load-string c13-d" + kw + ")",
			"(json:load-bytes c13-db" + kw + ")",
			"(json:load-message (json:dump-message c13-v)" + kw + ")",
			"(json:load-string (json:dump-string c13-v)" + kw + ")",
		})
		t, lv := c.eval(loadExpr)
		w.Eval(1)
		if t.IsErr {
			cls := c13FirstFailingLeaf(c, v, func(lvn string) string { return "(json:load-string (json:dump-string " + lvn + ")" + kw + ")" })
			w.Violation("load-rejects-dump:"+mode+":"+c13Blame(c, v, cls), "json:load rejected a document json:dump produced ("+t.Cond+")",
				detail(loadExpr+"\n=> "+t.Value+"\ndump: "+c13Q(d1)))
			continue
		}
		if x := c13CmpLoaded(v, lv, ei, "$"); x != nil {
			key := "load-dump-differs:" + mode + ":" + c13Blame(c, v, c13LeafClassOf(x))
			if x.kind == "inexact" {
				key = "exact-integers-inexact:" + c13LeafClassOf(x)
			}
			w.Violation(key, "load(dump v) is not v: "+x.why, detail(loadExpr+"\n=> "+c13Show(lv)+"\ndump: "+c13Q(d1)))
			continue
		}
		// the literal equal? claim, asked of the real equal?; lists are
		// compared through the vectorised copy, strings without a JSON
		// representation are out of the claim
		if !st.hasBad {
			c.set("c13-l", lv)
			lhs := "c13-v3"
			if !st.hasList && r.Bool() {
				lhs = "c13-v"
			}
			expr := "(equal? " + lhs + " c13-l)"
			if r.Bool() {
				expr = "(equal? c13-l " + lhs + ")"
			}
			te, ev := c.eval(expr)
			w.Eval(1)
			if te.IsErr || ev.Type != lisp.LSymbol || ev.Str != "true" {
				cls := c13FirstFailingLeaf(c, v, func(lvn string) string {
					return "(if (equal? " + lvn + " (json:load-string (json:dump-string " + lvn + ")" + kw + ")) () (error 'c13-not-equal \"x\"))"
				})
				w.Violation("load-dump-not-equal?:"+mode+":"+c13Blame(c, v, cls), "(equal? v (json:load (json:dump v))) is not true",
					detail(expr+" => "+te.Value+"\nloaded: "+c13Show(lv)+"\ndump: "+c13Q(d1)))
			}
		}
		w.CoverKey(ckBase + "|" + mode + "|" + strings.Join(c13Cap(classes, 4), ","))
	}
	// ---- 6. state carried across dumps
	if history {
		c13ValueHistory(w, c, rh, v, st, shape, d1, preEqual, detail)
	}
	if w.WantSample() && shape == "nested" && !v.leaf() && st.nodes > 3 {
		w.Sample(map[string]any{"kind": "value", "value": model, "dump": c13Trunc(d1, 400), "dump_string_numbers": c13Trunc(dsn, 400)})
	}
}

func c13Trunc(s string, n int) string {
	if len(s) > n {
		return s[:n] + "…"
	}
	return s
}

func c13Cap(xs []string, n int) []string {
	if len(xs) > n {
		return xs[:n]
	}
	return xs
}

// c13FirstFailingLeaf evaluates expr(leaf) for each leaf of the model alone
// and returns the class of the first leaf for which it signals; "composite"
// when no single leaf reproduces the failure.
func c13FirstFailingLeaf(c *c13RT, v *c13Val, expr func(name string) string) string {
	return c13FirstLeafWhere(c, v, func(*c13Val) bool {
		t, _ := c.eval(expr("c13-leaf"))
		return t.IsErr
	})
}

// c13FirstLeafWhere binds each leaf of the model to c13-leaf in turn and
// returns the class of the first one for which pred holds.
func c13FirstLeafWhere(c *c13RT, v *c13Val, pred func(leaf *c13Val) bool) string {
	found := ""
	n := 0
	var walk func(v *c13Val)
	walk = func(v *c13Val) {
		if found != "" || n > 400 {
			return
		}
		if v.leaf() {
			n++
			c.set("c13-leaf", c13BuildGo(v, nil, false))
			if pred(v) {
				found = v.class
			}
			return
		}
		for _, e := range v.elems {
			walk(e)
		}
	}
	walk(v)
	if found == "" {
		return "composite"
	}
	return found
}

// c13KeyCulprit puts every key of the model, alone, into a one-entry map
// {key: 1} (same spelling, same respelling steps) and returns the label of the
// first key whose map json:dump / json:load mishandle on its own: the dump
// fails, is not a JSON text, does not read back as {"name":1}, is rejected by
// load, or loads to a value that is not equal?.  "" when every key is fine
// alone.
func c13KeyCulprit(c *c13RT, v *c13Val) string {
	found := ""
	n := 0
	seen := map[string]bool{}
	var walk func(v *c13Val)
	walk = func(v *c13Val) {
		if found != "" || n > 400 {
			return
		}
		if v.kind == c13VMap {
			for _, k := range v.keys {
				id := k.label() + "\x00" + k.name
				if seen[id] || found != "" || n > 400 {
					continue
				}
				seen[id] = true
				n++
				one := &c13Val{kind: c13VMap, keys: []c13Key{k}, elems: []*c13Val{{kind: c13VInt, i: 1, class: "int:below-2^53"}}}
				if c13SingleBroken(c, one) {
					found = "map-key:" + k.label()
				}
			}
		}
		for _, e := range v.elems {
			walk(e)
		}
	}
	walk(v)
	return found
}

func c13SingleBroken(c *c13RT, one *c13Val) bool {
	c.set("c13-leaf", c13BuildGo(one, nil, false))
	bad := !c13x.ValidUTF8([]byte(one.keys[0].name))
	for _, sn := range []bool{false, true} {
		t, lv := c.eval("(json:dump-string c13-leaf :string-numbers " + c13Bool(sn) + ")")
		if t.IsErr || lv.Type != lisp.LString {
			return true
		}
		d := c13x.Parse([]byte(lv.Str))
		if !d.Valid || !d.UTF8 || c13CmpDump(one, d.Root, sn, "$") != nil {
			return true
		}
	}
	if bad {
		return false
	}
	t, lv := c.eval("(equal? c13-leaf (json:load-string (json:dump-string c13-leaf) :exact-integers true))")
	return t.IsErr || lv.Type != lisp.LSymbol || lv.Str != "true"
}

// c13Blame refines a coarse class ("composite", "map") to the key that fails
// alone, when there is one.
func c13Blame(c *c13RT, v *c13Val, coarse string) string {
	switch coarse {
	case "composite", "map", "vector", "list", "":
		if k := c13KeyCulprit(c, v); k != "" {
			return k
		}
	}
	return coarse
}

var _ = sort.Strings
