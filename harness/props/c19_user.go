package props

// C19 family 2 — functions defined with defun: every formals list over
// {required x 0..3, optional x 0..2, rest, key x 0..2} x k = 0..6.

import (
	"fmt"
	"strings"
	"sync"

	"verifharness/fw"
)

type c19UserSig struct {
	Formals []string
	// Rebound, when non-empty, adds a form that rebinds the function's name
	// locally somewhere else in the file (never around the call).
	Rebound string
}

var (
	c19UserOnce sync.Once
	c19UserList []c19UserSig
)

var c19Rebinders = map[string]string{
	"defun-param":  "(defun c19-other (NAME) NAME)\n",
	"lambda-param": "(set 'c19-other (lambda (NAME) NAME))\n",
	"let-binding":  "(set 'c19-other (let ((NAME 1)) NAME))\n",
	"flet-binding": "(set 'c19-other (flet ((NAME () 1)) (NAME)))\n",
}

var c19RebinderNames = []string{"defun-param", "lambda-param", "let-binding", "flet-binding"}

func c19UserSigs() []c19UserSig {
	c19UserOnce.Do(func() {
		req := []string{"a", "b", "c"}
		opt := []string{"o1", "o2"}
		key := []string{"k1", "k2"}
		for nr := 0; nr <= 3; nr++ {
			for no := 0; no <= 2; no++ {
				for rest := 0; rest <= 1; rest++ {
					for nk := 0; nk <= 2; nk++ {
						var f []string
						f = append(f, req[:nr]...)
						if no > 0 {
							f = append(f, "&optional")
							f = append(f, opt[:no]...)
						}
						if rest == 1 {
							f = append(f, "&rest", "r")
						}
						if nk > 0 {
							f = append(f, "&key")
							f = append(f, key[:nk]...)
						}
						c19UserList = append(c19UserList, c19UserSig{Formals: f})
					}
				}
			}
		}
		for _, how := range c19RebinderNames {
			c19UserList = append(c19UserList, c19UserSig{Formals: []string{"a", "b"}, Rebound: how})
			c19UserList = append(c19UserList, c19UserSig{Formals: []string{"a", "&optional", "o1"}, Rebound: how})
		}
	})
	return c19UserList
}

// c19DefunSrc renders (defun name formals (probe) (list params...)).
func c19DefunSrc(name string, formals []string) string {
	var params []string
	for _, f := range formals {
		if !strings.HasPrefix(f, "&") {
			params = append(params, f)
		}
	}
	return fmt.Sprintf("(defun %s (%s)\n  (verif:probe 'c19-body)\n  (vector %s))\n", name, strings.Join(formals, " "), strings.Join(params, " "))
}

func c19CountTag(o c19Obs, tag string) int {
	n := 0
	for _, p := range o.T.Trace {
		if p.Tag == tag {
			n++
		}
	}
	return n
}

// c19JudgeUser lints and evaluates one program with one target call of the
// user function name (signature sig) and applies the property.  keyExtra is
// appended to finding keys ("" in the exhaustive family).
func c19JudgeUser(w *fw.W, fnd *c19Findings, family, name string, sig c19Sig, formals []string, tmpl string, al c19ArgList, keyClass, keyExtra string) (violated bool) {
	src, pos := c19Place(tmpl, c19Call(name, al.Args))
	obs := c19Eval(src, pos)
	w.Eval(1)
	k := len(al.Args)
	rel := c19Rel(sig, k)
	body := c19CountTag(obs, "c19-body")
	fails := obs.BindFailed() && obs.TopName == name && obs.TopPkg == "user"
	switch {
	case fails && body == 0:
	case !fails && body == 1:
	default:
		fnd.add("harness-user-unclassified", "the defun workload could not classify a run (neither bound exactly once nor failed binding at the target)",
			fmt.Sprintf("source:\n%s\nrun: %s", src, obs))
		return true
	}
	if fails && !obs.AtTarget {
		w.Count("bind_errors_located_off_target", 1)
	}
	runClass := "bound"
	if fails {
		runClass = "bind-fail-keyword"
		if obs.Count {
			runClass = "bind-fail-count"
		}
		w.Count("calls_failing_binding", 1)
	} else {
		w.Count("calls_binding_ok", 1)
	}
	var lints []c19LintResult
	lintClass := ""
	for _, mode := range c19Modes {
		lr := c19Lint(mode, src)
		lints = append(lints, lr)
		if lr.Err != nil {
			fnd.add("harness-lint-error:defun", "lint failed on a generated defun source: "+lr.Err.Error(), src)
			violated = true
			continue
		}
		w.Count("lint_runs", 1)
		arity, other := lr.arityAt(pos)
		lc := "none"
		if len(arity) > 0 {
			lc = c19Analyzers(arity)
			w.Count("calls_reported", 1)
		}
		lintClass += mode + "=" + lc + ","
		detail := fmt.Sprintf("source:\n%s\ntarget call at %d:%d, formals (%s), %d argument(s) [%s]\nlint mode %s: arity diagnostics at the call: %s\nrun time: %s",
			src, pos.Line, pos.Col, strings.Join(formals, " "), k, al.Style, mode, c19DiagList(arity), obs)
		if len(arity) > 0 && !fails {
			fnd.add(fmt.Sprintf("spurious:%s:%s%s", keyClass, c19Analyzers(arity), keyExtra),
				fmt.Sprintf("%s reports a call of a defun'd function (%s) with %d argument(s) that the evaluator binds", c19Analyzers(arity), sig.Class(), k), detail)
			violated = true
		}
		if fails && !sig.HasKey() && mode != "syn" && len(arity) == 0 {
			if len(other) > 0 {
				w.Count("failing_calls_reported_only_by_non_arity_analyzer", 1)
				continue
			}
			key := fmt.Sprintf("missed:%s:%s%s", keyClass, rel, keyExtra)
			if strings.HasPrefix(keyClass, "defun-name-rebound-elsewhere") {
				key = fmt.Sprintf("missed:%s%s", keyClass, keyExtra) // one defect whatever the count
			}
			fnd.add(key,
				fmt.Sprintf("no arity diagnostic (semantic analysis on) for a call of a defun'd function (%s) with %d argument(s), but binding fails at run time (%s)", sig.Class(), k, obs.T.Msg), detail)
			violated = true
		}
	}
	w.CoverKey(fmt.Sprintf("%s|%s|%s|%s|%s|lint:%s|run:%s", family, keyClass, al.Style, rel, keyExtra, lintClass, runClass))
	w.SetAdd("signature_classes", sig.Class())
	c19Sample(w, family, src, pos, lints, obs)
	return violated
}

func c19RunUserSig(w *fw.W, us c19UserSig) {
	sig := c19ParseFormals(us.Formals)
	var fnd c19Findings
	name := "c19-f"
	tmpl := c19DefunSrc(name, us.Formals)
	keyClass := "defun:" + sig.Class()
	if us.Rebound != "" {
		tmpl += strings.ReplaceAll(c19Rebinders[us.Rebound], "NAME", name)
		keyClass = "defun-name-rebound-elsewhere:" + us.Rebound
	}
	tmpl += c19Mark + "\n"
	for _, al := range c19ArgLists(sig, 6) {
		c19JudgeUser(w, &fnd, "defun", name, sig, us.Formals, tmpl, al, keyClass, "")
	}
	w.Count("defun_signatures_enumerated", 1)
	fnd.flush(w)
}
