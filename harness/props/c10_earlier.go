package props

import (
	"fmt"
	"os"
	"sort"
	"strconv"
	"strings"
	"sync"
	"time"

	"verifharness/fw"
	"verifharness/rt"
)

// C10, round 10 — the same library calls made EARLIER BY A DIFFERENT PROGRAM in the
// same process.
//
// The in-process twins of c10Run and the "prior activity" of the cross-process
// phase hold one dimension constant: whatever ran earlier in the process was either
// the very same program (which re-creates any process-wide state exactly as the
// first run left it) or a fixed set of unrelated programs (which never make the
// library calls of the program under test with the same arguments).  What the
// property's "nothing observable depends ... on other runtimes that ran earlier in
// the same process" also covers is a *different* program that happened to hand the
// library the same inputs first — from other call sites, under another stream
// name, at another nesting depth, its errors handled, its runtime discarded.
//
// Every case is a program P (mostly: calls into every library package with inputs
// passed as strings, invalid and valid, the strings fresh per case) and decoys
// derived from P's text alone.  Several processes run the same case list:
//
//	alone                 P_0, P_1, ...  nothing else (the reference: each P is the
//	                      first program of the process to make its calls)
//	alone-reversed        the same, last case first (the programs that ran earlier
//	                      are other ones)
//	wrapped-before-each   before each P, in another runtime: P's text as the body of a
//	                      function, pushed down by blank lines, under another stream
//	                      name, called under a handler-bind that swallows the error
//	shifted-before-each   before each P: P's text pushed down and to the right, loaded
//	                      under another stream name (errors unhandled)
//	renamed-before-each   before each P: P's text verbatim under another stream name
//	all-decoys-first      the decoys of ALL cases first (kind by case), then all P
//	decoy-concurrent      each P while its decoy (kind by case) runs in another
//	                      goroutine: which of the two reaches the library first is up
//	                      to the scheduler, which the property excludes as well
//
// Oracle (the property's text, nothing else): the transcript of P — value, message,
// rendering with location, Stderr, steps, ErrorVal.Error, call-stack frames — is
// the same in all of them.

// c10LibTemplate is one program making library calls; § is replaced by a token that
// is fresh per case (lower-case letters and digits: valid inside symbols, strings,
// patterns and JSON member names alike).
type c10LibTemplate struct{ pkg, src string }

var c10LibTemplates = []c10LibTemplate{
	// regexp: patterns passed as strings
	{"regexp", "(defun check-all (xs)\n  (map 'list (lambda (x) (regexp:regexp-match? \"(a§\" x)) xs))\n(check-all '(\"a§\" \"b\"))"},
	{"regexp", `(handler-bind ((condition (lambda (c &rest a) (debug-print c a) (rethrow)))) (regexp:regexp-compile "[z-a§]"))`},
	{"regexp", `(list (ignore-errors (regexp:regexp-pattern "§a**")) (regexp:regexp-match? "^§x+$" "§xx")) (regexp:regexp-pattern "§a**")`},
	{"regexp", `(let ([re (regexp:regexp-compile "^§[0-9]+$")]) (list (regexp:regexp-match? re "§12") (regexp:regexp-pattern re) (regexp:regexp-match? "§." "§") (regexp:regexp? re)))`},
	{"regexp", "(defun m? (p s) (regexp:regexp-match? p s))\n(list (m? \"§+\" \"§§\") (handler-bind ((invalid-regexp-pattern (lambda (c &rest a) (list 'bad c)))) (m? \"§(?P<n\" \"x\")))\n(m? \"§(?P<n\" \"y\")"},
	// json: documents passed as strings and bytes
	{"json", `(json:load-string "{\"§\":[1,2")`},
	{"json", "(defun parse (s) (json:load-string s))\n(map 'list parse '(\"[1]\" \"{\\\"§\\\":}\" \"3\"))"},
	{"json", `(handler-bind ((json:syntax-error (lambda (c &rest a) (debug-print c a) (rethrow)))) (json:load-bytes (to-bytes "[§]")))`},
	{"json", `(json:dump-string (json:load-string "{\"§\":{\"b\":[1,2.5,null,true,\"§\"]}}"))`},
	{"json", `(list (ignore-errors (json:load-string "{\"§\":18446744073709551616}" :exact-integers true))) (json:load-string "{\"§\":18446744073709551616}" :exact-integers true)`},
	{"json", `(json:load-string "[\"§\"]" :no-such-option-§ true)`},
	// time: instants and durations passed as strings
	{"time", `(time:parse-rfc3339 "§-01-01")`},
	{"time", `(labels ([f (s) (time:duration-s (time:parse-duration s))]) (list (f "90s") (f "1§")))`},
	{"time", `(time:format-rfc3339 (time:parse-rfc3339-nano "2021-02-30T00:00:00.§Z"))`},
	{"time", `(handler-bind ((condition (lambda (c &rest a) (debug-print c a) (rethrow)))) (list (time:format-rfc3339 (time:parse-rfc3339 "2021-03-04T05:06:07Z")) (time:parse-duration "§h")))`},
	// base64
	{"base64", `(base64:decode "§!!")`},
	{"base64", `(list (to-string (base64:decode (base64:encode (to-bytes "§")))) (funcall (lambda (s) (base64:decode s)) "=§="))`},
	// string
	{"string", `(string:repeat "§" -3)`},
	{"string", `(string:join (list "a" '§ 3) ",")`},
	{"string", `(list (string:split "a§b§c" "§") (string:uppercase "§") (string:trim "§x§" "§")) (string:split "§" 5)`},
	// schema: constraints built from strings, values that fail them (named types only:
	// the process-wide numbering of anonymous validators is a finding of its own)
	{"schema", `(s:deftype "t§" s:string (s:regexp "(§"))`},
	{"schema", "(s:deftype \"u§\" s:string (s:regexp \"^§a+$\") (s:lenlt 12))\n(list (s:validate u§ \"§aa\") (ignore-errors (s:validate u§ \"b§\")))\n(s:validate u§ \"b§\")"},
	{"schema", "(s:deftype \"v§\" s:string (s:in \"§\" \"x§\"))\n(defun chk (x) (s:validate v§ x))\n(list (chk \"§\")) (chk \"y§\")"},
	{"schema", "(s:deftype \"w§\" s:sorted-map (s:has-key \"§\" s:int))\n(s:validate w§ (json:load-string \"{\\\"§\\\":\\\"1\\\"}\"))"},
	// math, help, conversions and nested loading
	{"math", `(math:sqrt "§")`},
	{"math", `(list (math:floor 2.5) (math:log 2 8)) (map 'list math:abs (list -1 "§"))`},
	{"help", `(help:help 'no-such-§)`},
	{"help", `(help:help-package-symbols "nopkg-§")`},
	{"convert", `(to-int "12§")`},
	{"convert", `(list (to-int "12") (ignore-errors (to-float "1.§"))) (let ([f (lambda (s) (to-float s))]) (f "1.§"))`},
	{"convert", `(format-string "{} {§" 1)`},
	{"load", `(load-string "(car (quote §)")`},
	{"load", "(defun run (s) (load-string s))\n(list (run \"(+ 1 2)\")) (run \"(+ 1 (undefined-§ 2))\")"},
	{"load", `(load-bytes (to-bytes "(regexp:regexp-match? \"[§\" \"x\")"))`},
	{"package", `(use-package 'nopkg-§)`},
	{"package", `(nopkg-§:f 1)`},
}

// c10EarlierCase is case idx of the family: a program, its label and the library
// package it exercises ("" for the cases taken from the main list).
func c10EarlierCase(sd c10Seeder, idx int) (src, label, pkg string) {
	switch idx % 4 {
	case 0, 1, 2:
		k := idx/4*3 + idx%4
		t := c10LibTemplates[k%len(c10LibTemplates)]
		r := sd.RNG(idx, "earlier-token")
		tok := "qzz" // one case in four spells a constant, as a literal in a source would be
		if r.Intn(4) != 0 {
			const al = "abcdefghijklmnopqrstuvwxyz0123456789"
			b := []byte{"kqxw"[r.Intn(4)]}
			for i := 0; i < 5; i++ {
				b = append(b, al[r.Intn(len(al))])
			}
			tok = string(b)
		}
		return strings.ReplaceAll(t.src, "§", tok) + "\n", "library-call:" + t.pkg, t.pkg
	default:
		// the programs of the main list: templates with the prelude, generated programs
		src, label, _ = c10Program(sd, idx/4)
		return src, label, ""
	}
}

var c10DecoyKinds = []string{"wrapped", "shifted", "renamed"}

// c10Decoy derives a different program from P's text alone.
func c10Decoy(kind, src string, idx int) (name, decoy string) {
	lines := strings.Split(strings.TrimRight(src, "\n"), "\n")
	switch kind {
	case "wrapped":
		var sb strings.Builder
		sb.WriteString(strings.Repeat("\n", 2+idx%5))
		// a directive on P's first line stays the first line
		fmt.Fprintf(&sb, "(defun c10-decoy-%d ()\n", idx)
		for _, l := range lines {
			sb.WriteString("    " + l + "\n")
		}
		fmt.Fprintf(&sb, "  )\n(handler-bind ((condition (lambda (c &rest a) (list c a)))) (c10-decoy-%d))\n", idx)
		return "c10-decoy-wrapped", sb.String()
	case "shifted":
		var sb strings.Builder
		sb.WriteString(strings.Repeat("\n", 1+idx%7))
		for _, l := range lines {
			sb.WriteString(strings.Repeat(" ", 1+idx%3) + l + "\n")
		}
		return "c10-decoy-shifted", sb.String()
	default:
		return "c10-decoy-renamed", src
	}
}

// c10RunDecoy runs P's decoy in a runtime of its own (same configuration as P) and
// returns the condition it ended with ("" when it returned a value).
func c10RunDecoy(kind, src string, idx int) (cond string) {
	name, d := c10Decoy(kind, src, idx)
	r := rt.New(c10Opts(src))
	t := r.Run(name, d)
	if t.IsErr {
		return t.Cond
	}
	if kind == "wrapped" && strings.HasPrefix(t.Value, "'('") {
		// (list c a) of the swallowing handler
		return strings.TrimRight(strings.Fields(t.Value[3:])[0], ")")
	}
	return ""
}

// c10EarlierAux: `--aux earlier <n> <mode>`; one line per case:
// E <idx> <hash> <decoy-kind|-> <decoy ended with P's condition: 1|0|-> <quoted transcript>
func c10EarlierAux(args []string) int {
	n, _ := strconv.Atoi(args[0])
	mode := args[1]
	seed, _ := strconv.ParseInt(os.Getenv("VERIF_SEED"), 10, 64)
	if seed == 0 {
		seed = 1
	}
	sd := c10Seeder{seed}
	order := make([]int, n)
	for i := range order {
		order[i] = i
		if mode == "alone-reversed" {
			order[i] = n - 1 - i
		}
	}
	kindOf := func(idx int) string {
		switch mode {
		case "wrapped-before-each", "shifted-before-each", "renamed-before-each":
			return strings.TrimSuffix(mode, "-before-each")
		case "all-decoys-first", "decoy-concurrent":
			return c10DecoyKinds[idx%len(c10DecoyKinds)]
		}
		return "-"
	}
	decoyCond := map[int]string{}
	if mode == "all-decoys-first" {
		for _, idx := range order {
			src, _, _ := c10EarlierCase(sd, idx)
			decoyCond[idx] = c10RunDecoy(kindOf(idx), src, idx)
		}
	}
	for _, idx := range order {
		src, _, _ := c10EarlierCase(sd, idx)
		kind := kindOf(idx)
		var t string
		switch {
		case mode == "decoy-concurrent":
			done := make(chan string)
			go func() { done <- c10RunDecoy(kind, src, idx) }()
			t = c10Transcript(src)
			decoyCond[idx] = <-done
		case kind != "-" && mode != "all-decoys-first":
			decoyCond[idx] = c10RunDecoy(kind, src, idx)
			t = c10Transcript(src)
		default:
			t = c10Transcript(src)
		}
		same := "-"
		if kind != "-" {
			same = "0"
			if strings.Contains(t, "err=true") && decoyCond[idx] == c10Field(t, "cond=") {
				same = "1"
			}
		}
		fmt.Printf("E %d %s %s %s %s\n", idx, c10Hash(t), kind, same, strconv.Quote(t))
	}
	return 0
}

var c10EarlierModes = []string{"alone", "alone-reversed", "wrapped-before-each", "shifted-before-each", "renamed-before-each", "all-decoys-first", "decoy-concurrent"}

type c10EarlierOut struct {
	hash, kind, same, transcript string
}

// c10EarlierStart launches the processes of the family; the returned function
// waits for them and judges.
func c10EarlierStart(d *fw.D) func() {
	n := pick(d.Tier, 288, 4800)
	if v, _ := strconv.Atoi(os.Getenv("VERIF_C10_EARLIER")); v > 0 {
		n = v // development aid
	}
	outs := make([]map[int]c10EarlierOut, len(c10EarlierModes))
	errs := make([]error, len(c10EarlierModes))
	var wg sync.WaitGroup
	for i, mode := range c10EarlierModes {
		wg.Add(1)
		go func(i int, mode string) {
			defer wg.Done()
			b, err := d.RunAux("", []string{"GOMAXPROCS=4"}, 30*time.Minute, "earlier", strconv.Itoa(n), mode)
			errs[i] = err
			m := map[int]c10EarlierOut{}
			for _, l := range strings.Split(string(b), "\n") {
				f := strings.SplitN(l, " ", 6)
				if len(f) != 6 || f[0] != "E" {
					continue
				}
				idx, e1 := strconv.Atoi(f[1])
				tr, e2 := strconv.Unquote(f[5])
				if e1 != nil || e2 != nil {
					continue
				}
				m[idx] = c10EarlierOut{f[2], f[3], f[4], tr}
			}
			outs[i] = m
		}(i, mode)
	}
	return func() {
		wg.Wait()
		for i, e := range errs {
			if e != nil {
				d.Violation("cross-process-run-failed", "process earlier/"+c10EarlierModes[i]+" failed: "+e.Error(), "")
				return
			}
			if len(outs[i]) != n {
				d.Inconclusive(fmt.Sprintf("process earlier/%s produced %d of %d transcripts", c10EarlierModes[i], len(outs[i]), n))
				return
			}
		}
		sd := c10Seeder{d.Seed}
		reported := map[string]bool{}
		pkgs := map[string]int{}
		for idx := 0; idx < n; idx++ {
			src, label, pkg := c10EarlierCase(sd, idx)
			ref := outs[0][idx]
			cond := "value"
			if strings.Contains(ref.transcript, "err=true") {
				cond = "err:" + c10Field(ref.transcript, "cond=")
			}
			if pkg != "" {
				pkgs[pkg]++
				d.SetAdd("earlier_program_library_outcomes", pkg+" -> "+cond)
				d.CoverKey("earlier|" + pkg + "|" + cond)
			}
			for i := 1; i < len(c10EarlierModes); i++ {
				o := outs[i][idx]
				if o.kind != "-" {
					d.Count("earlier_program_decoys_run:"+o.kind, 1)
					if o.same == "1" {
						d.Count("earlier_program_decoys_ending_with_the_condition_of_P:"+o.kind, 1)
					}
				}
				if o.hash == ref.hash {
					continue
				}
				key := "depends-on-earlier-different-program:" + label
				if _, named := c10NamedLabels[label]; named {
					// a listed finding keeps the key it is listed under
					key = "nondeterministic-across-processes:" + label
				}
				if !reported[key] {
					reported[key] = true
					d.Violation(key, fmt.Sprintf("earlier-program case %d: the transcript of P in a process that ran only the cases themselves differs from its transcript in the process [%s] (%s)",
						idx, c10EarlierModes[i], c10FirstDiff(ref.transcript, o.transcript)),
						src+"\n--- P first in its process [alone] ---\n"+ref.transcript+"\n--- P in process ["+c10EarlierModes[i]+"] ---\n"+o.transcript+c10DecoyText(o.kind, src, idx))
				}
			}
		}
		d.Eval(n * len(c10EarlierModes))
		d.Count("earlier_program_cases", int64(n))
		d.Count("earlier_program_transcripts_compared", int64(n*(len(c10EarlierModes)-1)))
		for _, m := range c10EarlierModes {
			d.SetAdd("earlier_program_process_modes", m)
		}
		// floor: every library package of the template list was exercised, every decoy
		// kind ran and at least once ended with the very condition P ends with
		want := map[string]bool{}
		for _, t := range c10LibTemplates {
			want[t.pkg] = true
		}
		var missing []string
		for p := range want {
			if pkgs[p] == 0 {
				missing = append(missing, "package "+p)
			}
		}
		for _, k := range c10DecoyKinds {
			if d.Counters["earlier_program_decoys_ending_with_the_condition_of_P:"+k] == 0 {
				missing = append(missing, "decoy kind "+k+" reproducing P's condition")
			}
		}
		if len(missing) > 0 {
			sort.Strings(missing)
			d.Inconclusive("earlier-different-program family generated nothing for: " + strings.Join(missing, ", "))
		}
	}
}

func c10DecoyText(kind, src string, idx int) string {
	if kind == "-" || kind == "" {
		return ""
	}
	name, dsrc := c10Decoy(kind, src, idx)
	return "\n--- decoy (" + kind + ", stream " + name + ") ---\n" + dsrc
}

// c10NamedLabels: labels of listed findings (values of c10Named).
var c10NamedLabels = func() map[string]bool {
	m := map[string]bool{}
	for _, v := range c10Named {
		m[v] = true
	}
	return m
}()
