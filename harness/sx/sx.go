// Package sx is the harness' own syntax tree for generated programs and its
// renderer.  The renderer records the byte span, line and column of every node
// while it writes, so monitors can compare reported error locations against
// the form the model identifies without consulting the parser's bookkeeping.
package sx

import (
	"fmt"
	"strconv"
	"strings"
)

type Kind int

const (
	Int Kind = iota
	Float
	Str
	Sym
	List   // ( ... )
	Brack  // [ ... ]  (a quoted list)
	Quote  // 'x
	FunRef // #'x   (function x)
	Raw    // verbatim text (rendered as is)
)

// N is a syntax node.
type N struct {
	K     Kind
	I     int64
	F     float64
	S     string // Str contents, Sym name, Raw text
	L     []*N   // List/Brack children; Quote/FunRef operand in L[0]
	Spell string // optional literal spelling for numbers (e.g. "#xFF", "2e0")
	Prog  []*N   // Str only: nested program whose rendered text is the string's contents

	// filled by Render
	Pos, End  int // byte offsets [Pos,End)
	Line, Col int // 1-based
	ID        int
}

func I(i int64) *N        { return &N{K: Int, I: i} }
func F(f float64) *N      { return &N{K: Float, F: f} }
func S(s string) *N       { return &N{K: Str, S: s} }
func Y(name string) *N    { return &N{K: Sym, S: name} }
func L(xs ...*N) *N       { return &N{K: List, L: xs} }
func B(xs ...*N) *N       { return &N{K: Brack, L: xs} }
func Q(x *N) *N           { return &N{K: Quote, L: []*N{x}} }
func QY(name string) *N   { return Q(Y(name)) }
func FR(name string) *N   { return &N{K: FunRef, L: []*N{Y(name)}} }
func RawText(s string) *N { return &N{K: Raw, S: s} }
func Nil() *N             { return L() }

// Call builds (head args...).
func Call(head string, args ...*N) *N {
	xs := make([]*N, 0, len(args)+1)
	xs = append(xs, Y(head))
	xs = append(xs, args...)
	return &N{K: List, L: xs}
}

// FloatText is the spelling used for float literals: always re-readable as a
// float by the elps lexer (which requires digits on both sides of '.').
func FloatText(f float64) string {
	s := strconv.FormatFloat(f, 'g', -1, 64)
	if strings.ContainsAny(s, "eE") {
		// elps lexer: 1e21 reads as float; mantissa may lack '.'
		return s
	}
	if !strings.Contains(s, ".") {
		s += ".0"
	}
	return s
}

// StrText renders a string literal the elps reader accepts (Go %q is what
// the printer itself uses).
func StrText(s string) string { return fmt.Sprintf("%q", s) }

// Layout controls optional whitespace/comment noise.
type Layout struct {
	// Gap returns the separator to write between two sibling tokens;
	// nil means a single space.
	Gap func() string
	// Top separates top-level forms; nil means "\n".
	Top func() string
}

type renderer struct {
	sb        strings.Builder
	line, col int
	lay       *Layout
	nextID    int
}

func (r *renderer) write(s string) {
	for i := 0; i < len(s); i++ {
		if s[i] == '\n' {
			r.line++
			r.col = 1
		} else {
			r.col++
		}
	}
	r.sb.WriteString(s)
}

func (r *renderer) gap() {
	if r.lay != nil && r.lay.Gap != nil {
		r.write(r.lay.Gap())
		return
	}
	r.write(" ")
}

func (r *renderer) node(n *N) {
	n.Pos, n.Line, n.Col = r.sb.Len(), r.line, r.col
	r.nextID++
	n.ID = r.nextID
	switch n.K {
	case Int:
		if n.Spell != "" {
			r.write(n.Spell)
		} else {
			r.write(strconv.FormatInt(n.I, 10))
		}
	case Float:
		if n.Spell != "" {
			r.write(n.Spell)
		} else {
			r.write(FloatText(n.F))
		}
	case Str:
		if n.Prog != nil {
			n.S = Render(n.Prog, nil)
		}
		r.write(StrText(n.S))
	case Sym, Raw:
		r.write(n.S)
	case Quote:
		r.write("'")
		r.node(n.L[0])
	case FunRef:
		r.write("#'")
		r.node(n.L[0])
	case List, Brack:
		open, close := "(", ")"
		if n.K == Brack {
			open, close = "[", "]"
		}
		r.write(open)
		for i, c := range n.L {
			if i > 0 {
				r.gap()
			}
			r.node(c)
		}
		r.write(close)
	}
	n.End = r.sb.Len()
}

// Render writes the top-level forms and fills in positions.
func Render(forms []*N, lay *Layout) string {
	r := &renderer{line: 1, col: 1, lay: lay}
	for i, f := range forms {
		if i > 0 {
			if lay != nil && lay.Top != nil {
				r.write(lay.Top())
			} else {
				r.write("\n")
			}
		}
		r.node(f)
	}
	r.write("\n")
	return r.sb.String()
}

// String renders one node compactly (no position side effects on a copy).
func (n *N) String() string {
	c := n.Clone()
	return strings.TrimSuffix(Render([]*N{c}, nil), "\n")
}

func (n *N) Clone() *N {
	if n == nil {
		return nil
	}
	c := *n
	if n.L != nil {
		c.L = make([]*N, len(n.L))
		for i, k := range n.L {
			c.L[i] = k.Clone()
		}
	}
	return &c
}

// Count returns the number of nodes.
func (n *N) Count() int {
	c := 1
	for _, k := range n.L {
		c += k.Count()
	}
	return c
}

// Walk visits every node.
func (n *N) Walk(f func(*N)) {
	f(n)
	for _, k := range n.L {
		k.Walk(f)
	}
}

// IsSym reports whether n is the symbol name.
func (n *N) IsSym(name string) bool { return n != nil && n.K == Sym && n.S == name }

// Head returns the head symbol name of a list form ("" if none).
func (n *N) Head() string {
	if n != nil && n.K == List && len(n.L) > 0 && n.L[0].K == Sym {
		return n.L[0].S
	}
	return ""
}
