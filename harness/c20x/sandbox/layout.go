// Package sandbox builds the directory layouts (as fsmodel trees) and the
// location-string grammar of the C20 check.
package sandbox

import (
	"fmt"
	"sort"
	"strings"

	"verifharness/c20x/fsmodel"
	"verifharness/fw"
)

// Loader is a lisp file inside the root that performs the nested load:
// its content is `(verif:probe 'TAG) (load-file (verif:c20-loc))`.
type Loader struct {
	Label string
	// Spelled is the sandbox-relative path the loader is reached by (may pass
	// through links); Chain lists the probe tags expected before the nested
	// load happens (outer loaders first).
	Spelled string
	Chain   []string
	// CtxDirs are the candidate directories (sandbox-relative, as spelled) the
	// nested load may legitimately be resolved against: the directory of the
	// spelled path and the directory of the real file.  They differ only for
	// loaders reached through links, where the property statement does not
	// say which one "the directory of the file doing the loading" is.
	CtxDirs []string
	// InnerSpelled is the spelled path of the file that actually executes the
	// nested load (differs from Spelled for two-level loaders).
	InnerSpelled string
	// HopReq is set for hop contexts (Layout.Hops): Spelled is then a hop file
	// (`(verif:probe 'TAG)` followed by a load of HopReq performed either by a
	// host Go builtin calling a LoadFile entry point of the environment it was
	// handed, or by the load-file builtin), and HopReq is the request, spelled
	// relative to the hop file's directory, that reaches the loader file which
	// performs the nested load of the location under test.  The request is by
	// construction not the true location of that loader file.
	HopReq string
	// SeqPre is set for sequence contexts (Layout.Seqs): Spelled is then a
	// sequence file (`(verif:probe 'TAG)` followed by one of the SeqShapes
	// forms), a file whose top-level form hands a LIST of locations to a
	// builtin that calls load-file (or a host include builtin) back once per
	// element.  SeqPre are the elements loaded before the last one, spelled
	// relative to the sequence file's directory; each denotes a plain marker
	// file inside the root (their probes are part of Chain).  The last element
	// is the location under test (HopReq empty: the sequence file itself is the
	// loading file) or HopReq (the request reaching a loader file, which then
	// loads the location under test).  The earlier loads must not change the
	// directory the later ones resolve against.
	SeqPre   []string
	SeqShape string
	// StrShape is set for string-sourced contexts (Layout.Strs): the load is
	// issued by code that is NOT read from a file - a string, []byte or reader
	// handed to load-string / load-bytes or to a host Load* entry point under
	// a free-form stream name (label).  StrTop: the host enters the
	// string-sourced code directly (Spelled is empty); otherwise Spelled is a
	// string file (`(verif:probe 'TAG)` followed by the StrShapes form), a real
	// file that evaluates the string-sourced code while it executes.  The
	// string-sourced code loads the location under test itself (StrInner
	// false) or the loader file InnerSpelled (StrInner true; the request is
	// spelled the way a top-level request is), which then loads the location
	// under test.  String-sourced code has no loading file: its loads resolve
	// like top-level loads, whatever the label and wherever the file that
	// evaluated the string lives (SourceContext.Location documentation).
	StrShape string
	StrTop   bool
	StrInner bool
}

// StrShape is one way string-sourced code is entered: Form is the lisp form
// that does it.  (verif:c20-str-src) yields the source text,
// (verif:c20-str-label) the stream name; verif:c20-str-host is a host Go
// builtin calling LoadString | LoadStringContext | Load | LoadContext of the
// environment it was handed with that name and source.
type StrShape struct {
	Name  string
	Form  string
	Named bool   // the stream name is passed
	Host  bool   // entered through a host Load* entry point
	By    string // what evaluates the source: load-string | load-bytes | the host entry point
}

// StrShapes lists the ways string-sourced code is entered.
var StrShapes = []StrShape{
	{Name: "load-string", Form: "(load-string (verif:c20-str-src) :name (verif:c20-str-label))", Named: true, By: "load-string"},
	{Name: "load-string-noname", Form: "(load-string (verif:c20-str-src))", By: "load-string"},
	{Name: "load-bytes", Form: "(load-bytes (to-bytes (verif:c20-str-src)) :name (verif:c20-str-label))", Named: true, By: "load-bytes"},
	{Name: "load-bytes-noname", Form: "(load-bytes (to-bytes (verif:c20-str-src)))", By: "load-bytes"},
	{Name: "load-string-in-let", Form: "(let ([s (verif:c20-str-src)] [n (verif:c20-str-label)]) (load-string s :name n))", Named: true, By: "load-string"},
	{Name: "load-string-in-lambda", Form: "(funcall (lambda (s n) (load-string s :name n)) (verif:c20-str-src) (verif:c20-str-label))", Named: true, By: "load-string"},
	{Name: "load-bytes-mapped", Form: "(map 'list (lambda (s) (load-bytes (to-bytes s) :name (verif:c20-str-label))) (list (verif:c20-str-src)))", Named: true, By: "load-bytes"},
	{Name: "load-string-in-load-string", Form: "(load-string \"(load-string (verif:c20-str-src) :name (verif:c20-str-label))\" :name \"c20outer/dir/stream\")", Named: true, By: "load-string"},
	{Name: "host-LoadString", Form: "(verif:c20-str-host)", Named: true, Host: true, By: "LoadString"},
	{Name: "host-LoadStringContext", Form: "(verif:c20-str-host)", Named: true, Host: true, By: "LoadStringContext"},
	{Name: "host-Load", Form: "(verif:c20-str-host)", Named: true, Host: true, By: "Load"},
	{Name: "host-LoadContext", Form: "(verif:c20-str-host)", Named: true, Host: true, By: "LoadContext"},
}

// StrShapeOf returns the shape called name.
func StrShapeOf(name string) StrShape {
	for _, sh := range StrShapes {
		if sh.Name == name {
			return sh
		}
	}
	panic("no such string shape: " + name)
}

// SeqShape is one way a file loads a sequence of locations: Form is the
// top-level form of the sequence file.  (verif:c20-seq) yields the list of
// locations, (verif:c20-seq-next) the next one of them; verif:c20-include is
// a host Go builtin calling a LoadFile entry point of the environment it was
// handed, verif:c20-include-acc the same with an accumulator argument first.
type SeqShape struct {
	Name    string
	Form    string
	Include bool // the loads are made by the host include builtin
	NPre    int  // > 0: the form performs exactly NPre+1 loads
}

// SeqShapes lists the sequence-file shapes.
var SeqShapes = []SeqShape{
	{Name: "map-list", Form: "(map 'list load-file (verif:c20-seq))"},
	{Name: "map-vector", Form: "(map 'vector load-file (verif:c20-seq))"},
	{Name: "select", Form: "(select 'list load-file (verif:c20-seq))"},
	{Name: "reject", Form: "(reject 'list load-file (verif:c20-seq))"},
	{Name: "map-include", Form: "(map 'list verif:c20-include (verif:c20-seq))", Include: true},
	{Name: "foldl-include", Form: "(foldl verif:c20-include-acc () (verif:c20-seq))", Include: true},
	{Name: "foldl-lambda", Form: "(foldl (lambda (acc x) (load-file x)) () (verif:c20-seq))"},
	{Name: "dotimes-funcall", Form: "(let ([s (verif:c20-seq)]) (dotimes (i (length s)) (funcall load-file (nth s i))))"},
	{Name: "map-lambda-apply", Form: "(map 'list (lambda (x) (apply load-file (list x))) (verif:c20-seq))"},
	{Name: "forms", Form: "(load-file (verif:c20-seq-next)) (load-file (verif:c20-seq-next))", NPre: 1},
}

// RootSpec is one way to name the root directory in a configuration.
type RootSpec struct {
	Label string
	Path  string // absolute, or relative to the layout's cwd
}

// Layout is a sandbox model plus the configurations exercised on it.
type Layout struct {
	Name    string
	Tree    *fsmodel.Tree
	Root    *fsmodel.Node // the real root directory
	RootRel string        // its sandbox-relative path
	Cwd     *fsmodel.Node
	CwdRel  string
	Roots   []RootSpec // spellings for RelativeFileSystemLibrary.RootDir
	FSRoots []RootSpec // spellings for os.DirFS / os.OpenRoot (absolute)
	Loaders []Loader
	// Hops are the contexts in which the loader file is itself loaded from a
	// running file with a relative request (interpreter entry points only).
	Hops []Loader
	// Seqs are the contexts in which the loading file loads several locations
	// in a row through callbacks of a builtin, the location under test (or the
	// request reaching the loader file) last (interpreter entry points only).
	Seqs []Loader
	// Strs are the contexts in which the load is issued by string-sourced code
	// (interpreter entry points only), see Loader.StrShape.
	Strs   []Loader
	Secret string   // token contained in a non-lisp outside file
	Starts []string // sandbox-relative directories location enumeration starts from
	// Plain layouts carry `"MARKER"` as file content (no probe builtins): for
	// runs of the real elps command line, which has no host builtins.
	Plain bool
	// Near layouts (near.go): the root's path components have near-equal
	// twins outside the root (Twins), and two entries inside the root have a
	// near-equal twin each (InsideTwins, sandbox-relative paths of the files).
	// The location list of a near layout also holds the anchors of every file.
	Near        bool
	Twins       []NearTwin
	InsideTwins []string
	nmark       int
	// the label pool of the string-sourced contexts (built on first use)
	strClasses []string
	strPool    map[string][]string
	strComps   []string
	strTails   []string
}

// Sentinel is the location the loaders get on re-entry; it exists nowhere.
const Sentinel = "c20-reentry-nx.lisp"

func (l *Layout) marker(hint string) string {
	l.nmark++
	h := strings.NewReplacer("/", "_", ".", "_").Replace(hint)
	// (markers are lisp symbols: the names of the near layouts hold blanks,
	// non-ASCII letters and invisible characters)
	h = strings.Map(func(r rune) rune {
		if r == '_' || r == '-' || '0' <= r && r <= '9' || 'a' <= r && r <= 'z' || 'A' <= r && r <= 'Z' {
			return r
		}
		return '_'
	}, h)
	return fmt.Sprintf("m%03d_%s", l.nmark, h)
}

// file adds a lisp marker file.
func (l *Layout) file(rel string) *fsmodel.Node {
	m := l.marker(rel)
	if l.Plain {
		return l.Tree.AddFile(rel, m, fmt.Sprintf("\"%s\"\n", m))
	}
	return l.Tree.AddFile(rel, m, fmt.Sprintf("(verif:probe '%s) \"%s\"\n", m, m))
}

func (l *Layout) loaderFile(rel string) string {
	m := l.marker("ldr_" + rel)
	l.Tree.AddFile(rel, m, fmt.Sprintf("(verif:probe '%s) (load-file (verif:c20-loc))\n", m))
	return m
}

// HopName is the file name of the hop files.  They are not listed by the
// location enumeration (they exist only to load a loader file from a running
// file), so the location grammar is the same with and without them.
const HopName = "c20hop.lisp"

// hopFile adds the hop file of directory dir and returns its marker.
func (l *Layout) hopFile(dir string) string {
	rel := join(dir, HopName)
	m := l.marker("hop_" + rel)
	l.Tree.AddFile(rel, m, fmt.Sprintf("(verif:probe '%s) (if (verif:c20-hop-lisp?) (load-file (verif:c20-hop-req)) (verif:c20-hop))\n", m))
	return m
}

// SeqPrefix starts the file names of the sequence files (not listed by the
// location enumeration either).
const SeqPrefix = "c20seq-"

// seqFile adds the sequence file of directory dir and shape sh (once) and
// returns its path and marker.
func (l *Layout) seqFile(dir string, sh SeqShape) (string, string) {
	rel := join(dir, SeqPrefix+sh.Name+".lisp")
	if n := l.Tree.Lookup(rel); n != nil {
		return rel, n.Marker
	}
	m := l.marker("seq_" + rel)
	l.Tree.AddFile(rel, m, fmt.Sprintf("(verif:probe '%s) %s\n", m, sh.Form))
	return rel, m
}

// buildSeqs fills l.Seqs.  ldirs are the loader directories, loaders[i] the
// plain loader file of ldirs[i], inFiles the plain marker files inside the
// root (sandbox-relative, reached without links).  No PRNG: the contexts are
// a function of the layout.
//
// Per directory d the earlier loads ("pre-lists") are taken from the marker
// files of OTHER directories (rotated per directory), alone, in pairs, and
// mixed with a marker file of d itself (before: the last earlier load is still
// elsewhere; after: control, the last earlier load is in d).  Every shape
// meets every pre-list with the location under test as the last element; and
// for every ordered pair of loader directories (dx, dy) two shapes load
// [pre-list of dx..., request reaching dy's loader file], the loader file then
// loading the location under test.
func (l *Layout) buildSeqs(ldirs []string, loaders []Loader, inFiles []string) {
	for i, d := range ldirs {
		var others, same []string
		for _, f := range inFiles {
			if dirOf(f) == d {
				same = append(same, f)
			} else {
				others = append(others, f)
			}
		}
		if len(others) == 0 {
			continue
		}
		rot := func(k int) string { return others[(i+k)%len(others)] }
		pre := [][]string{{rot(0)}}
		if len(others) > 1 {
			pre = append(pre, []string{rot(1)}, []string{rot(1), rot(0)})
		}
		if len(same) > 0 {
			pre = append(pre, []string{same[0], rot(len(others) - 1)}, []string{rot(0), same[0]})
		}
		lab := strings.TrimPrefix(loaders[i].Label, "ldr-")
		mk := func(sh SeqShape, k int) (Loader, bool) {
			ps := pre[k%len(pre)]
			if sh.NPre > 0 && len(ps) != sh.NPre {
				if k >= len(pre) {
					ps = pre[0]
				} else {
					return Loader{}, false
				}
			}
			rel, m := l.seqFile(d, sh)
			ld := Loader{Spelled: rel, Chain: []string{m}, CtxDirs: []string{d}, SeqShape: sh.Name}
			for _, f := range ps {
				ld.SeqPre = append(ld.SeqPre, RelPath(d, f))
				ld.Chain = append(ld.Chain, l.Tree.Lookup(f).Marker)
			}
			return ld, true
		}
		for _, sh := range SeqShapes {
			for k := range pre {
				if ld, ok := mk(sh, k); ok {
					ld.Label = fmt.Sprintf("seq-%s:%s:p%d", lab, sh.Name, k)
					l.Seqs = append(l.Seqs, ld)
				}
			}
		}
		for j, dy := range ldirs {
			y := loaders[j]
			for _, si := range []int{i*len(ldirs) + j, i*len(ldirs) + j + 4} {
				sh := SeqShapes[si%len(SeqShapes)]
				ld, _ := mk(sh, len(pre)+i+j)
				ld.Label = fmt.Sprintf("seqhop-%s>%s:%s", lab, strings.TrimPrefix(y.Label, "ldr-"), sh.Name)
				ld.Chain = append(ld.Chain, y.Chain...)
				ld.CtxDirs = y.CtxDirs
				ld.InnerSpelled = y.Spelled
				ld.HopReq = RelPath(d, join(dy, "ldr.lisp"))
				l.Seqs = append(l.Seqs, ld)
			}
		}
	}
}

// StrPrefix starts the file names of the string files (not listed by the
// location enumeration either).
const StrPrefix = "c20str-"

// buildStrs fills l.Strs.  ldirs are the loader directories, loaders[i] the
// plain loader file of ldirs[i]; all are the loader contexts of the layout
// (the link-reached and two-level ones included).  No PRNG: the contexts are a
// function of the layout.  Placements: the host enters the string-sourced code
// directly ("top"), or a string file in a loader directory does while it
// executes.  Every shape meets every placement with the location under test
// loaded by the string-sourced code itself; and for every (placement, loader
// context) pair one shape loads the loader file from the string-sourced code,
// the loader file then loading the location under test.
func (l *Layout) buildStrs(ldirs []string, loaders []Loader, all []Loader) {
	type place struct {
		lab, dir string
		top      bool
	}
	places := []place{{lab: "top", top: true}}
	for i, d := range ldirs {
		places = append(places, place{lab: strings.TrimPrefix(loaders[i].Label, "ldr-"), dir: d})
	}
	mk := func(p place, sh StrShape) Loader {
		if p.top {
			return Loader{StrShape: sh.Name, StrTop: true}
		}
		rel := join(p.dir, StrPrefix+sh.Name+".lisp")
		n := l.Tree.Lookup(rel)
		if n == nil {
			m := l.marker("str_" + rel)
			n = l.Tree.AddFile(rel, m, fmt.Sprintf("(verif:probe '%s) %s\n", m, sh.Form))
		}
		return Loader{Spelled: rel, Chain: []string{n.Marker}, CtxDirs: []string{p.dir}, StrShape: sh.Name}
	}
	for pi, p := range places {
		for _, sh := range StrShapes {
			ld := mk(p, sh)
			ld.Label = fmt.Sprintf("str-%s:%s", p.lab, sh.Name)
			l.Strs = append(l.Strs, ld)
		}
		for j, y := range all {
			sh := StrShapes[(pi*len(all)+j)%len(StrShapes)]
			ld := mk(p, sh)
			ld.Label = fmt.Sprintf("strhop-%s>%s:%s", p.lab, strings.TrimPrefix(y.Label, "ldr-"), sh.Name)
			ld.Chain = append(ld.Chain, y.Chain...)
			ld.CtxDirs = y.CtxDirs
			ld.InnerSpelled = y.Spelled
			ld.StrInner = true
			l.Strs = append(l.Strs, ld)
		}
	}
}

// Label classes of the string-sourced contexts that say nothing about a
// directory: a control run with such a label is what the other classes are
// compared with.
const (
	StrClassEmpty = "empty-name"
	StrClassWord  = "plain-word"
)

// StrControlLabel is the stream name of the control runs.
const StrControlLabel = "c20label"

func (l *Layout) strAdd(class string, texts ...string) {
	if l.strPool == nil {
		l.strPool = map[string][]string{}
	}
	for _, t := range texts {
		if _, ok := l.strPool[class]; !ok {
			l.strClasses = append(l.strClasses, class)
		}
		dup := false
		for _, x := range l.strPool[class] {
			if x == t {
				dup = true
			}
		}
		if !dup {
			l.strPool[class] = append(l.strPool[class], t)
		}
	}
}

// buildStrLabels builds the pool of stream names from the layout: a stream
// name is free-form text, so the pool holds what a host or a program may
// plausibly (or carelessly) pass - nothing, a word, and paths of every kind:
// directories that exist inside and outside the root, spelled the way the FS
// libraries address files (relative to the root), relative to the working
// directory and absolutely, with a non-existent and with an existing file
// name behind them, paths of real files, ".."-laden and unclean spellings,
// directories reached through links, trailing slashes, directories that do not
// exist, URLs.
func (l *Layout) buildStrLabels() {
	t := l.Tree
	inFS := func(p string) string {
		if p == l.RootRel {
			return "."
		}
		if strings.HasPrefix(p, l.RootRel+"/") {
			return strings.TrimPrefix(p, l.RootRel+"/")
		}
		return RelPath(l.RootRel, p)
	}
	cwdRel := func(p string) string { return RelPath(l.CwdRel, p) }
	abs := func(p string) string { return join(t.BasePath, p) }
	type ent struct {
		rel    string
		inside bool
	}
	var dirs, files, linkDirs []ent
	var walk func(n *fsmodel.Node, rel string)
	walk = func(n *fsmodel.Node, rel string) {
		inside := n.UnderOrSelf(l.Root)
		if rel != "" {
			dirs = append(dirs, ent{rel, inside})
		}
		for _, k := range n.SortedKids() {
			c := n.Kids[k]
			cr := join(rel, k)
			switch c.Kind {
			case fsmodel.Dir:
				walk(c, cr)
			case fsmodel.File:
				if c.Marker != "" && k != HopName && !strings.HasPrefix(k, SeqPrefix) && !strings.HasPrefix(k, StrPrefix) {
					files = append(files, ent{cr, inside})
				}
			case fsmodel.Link:
				if res := t.ResolveLink(c); res.Err == fsmodel.OK && res.Node.Kind == fsmodel.Dir && inside {
					linkDirs = append(linkDirs, ent{cr, true})
				}
			}
		}
	}
	walk(t.Base, "")
	l.strAdd(StrClassEmpty, "")
	l.strAdd(StrClassWord, "bootstrap", "c20top", "load-string", "x.lisp", "expression 1", "<native code>")
	slashed := func(class string, texts ...string) {
		for _, x := range texts {
			if strings.Contains(x, "/") {
				l.strAdd(class, x)
			}
		}
	}
	comps := map[string]bool{}
	tails := map[string]bool{"label": true, "x.lisp": true, "": true}
	for _, d := range dirs {
		for _, c := range split(d.rel) {
			comps[c] = true
		}
		if d.inside {
			// spellings of the directory: relative to the root (the way FS
			// libraries address files; none for the root itself), relative to the
			// working directory, absolute
			var sp []string
			if d.rel != l.RootRel {
				sp = append(sp, inFS(d.rel))
			}
			if c := cwdRel(d.rel); c != "." {
				sp = append(sp, c)
			}
			last := d.rel[strings.LastIndex(d.rel, "/")+1:]
			for _, x := range sp {
				l.strAdd("dir-inside-root", x+"/label", x+"/x.lisp")
				l.strAdd("dotdot", x+"/../label", x+"/../"+last+"/label", x+"/nx/../label")
				l.strAdd("trailing-slash", x+"/")
				l.strAdd("nonexistent-dir", x+"/nx/label")
				l.strAdd("odd-spelling", "./"+x+"/label", strings.ReplaceAll(x+"/label", "/", "//"), "http://host/"+x+"/x.lisp", x+"/./label")
			}
			l.strAdd("absolute-inside-root", abs(d.rel)+"/label")
			l.strAdd("trailing-slash", abs(d.rel)+"/")
			l.strAdd("odd-spelling", "file://"+abs(d.rel)+"/x.lisp")
		} else {
			slashed("dir-outside-root", join(cwdRel(d.rel), "label"), join(inFS(d.rel), "label"))
			l.strAdd("absolute-outside-root", join(abs(d.rel), "label"))
		}
	}
	for _, f := range files {
		name := f.rel[strings.LastIndex(f.rel, "/")+1:]
		tails[name] = true
		l.strAdd(StrClassWord, name)
		if f.inside {
			slashed("real-file-inside-root", inFS(f.rel), cwdRel(f.rel))
			l.strAdd("absolute-inside-root", abs(f.rel))
		} else {
			slashed("real-file-outside-root", cwdRel(f.rel), inFS(f.rel))
			l.strAdd("absolute-outside-root", abs(f.rel))
		}
	}
	for _, d := range linkDirs {
		comps[d.rel[strings.LastIndex(d.rel, "/")+1:]] = true
		slashed("dir-via-link", join(inFS(d.rel), "label"), join(cwdRel(d.rel), "label"), join(abs(d.rel), "label"))
	}
	l.strAdd("dotdot", "../label", "../../label", "..", "../", "../x.lisp")
	l.strAdd("trailing-slash", "label/", "/")
	l.strAdd("nonexistent-dir", "plugins/bootstrap", "nx/label", "nx/deep/label.lisp")
	l.strAdd("absolute-outside-root", "/etc/hostname", "/label", "/nx/label", "/etc/label")
	l.strAdd("odd-spelling", "./label", ".", "./", "//label", "sub\\label", " /label", "~/label")
	for c := range comps {
		l.strComps = append(l.strComps, c)
	}
	sort.Strings(l.strComps)
	l.strComps = append(l.strComps, "..", "..", ".", "nx")
	for c := range tails {
		l.strTails = append(l.strTails, c)
	}
	sort.Strings(l.strTails)
	l.strClasses = append(l.strClasses, "random-path")
}

// StrLabel draws a stream name for string-sourced code: a class first (so
// that every class is exercised equally often, however many members it has),
// then a member; the class "random-path" composes a path of 1-4 components
// (names of the layout's directories and directory links, "..", ".", a name
// that exists nowhere), relative or absolute (below the sandbox or below "/"),
// ending in a word, a real file's name or a slash.
func (l *Layout) StrLabel(r *fw.RNG) (class, text string) {
	if l.strClasses == nil {
		l.buildStrLabels()
	}
	class = fw.Pick(r, l.strClasses)
	if class != "random-path" {
		return class, fw.Pick(r, l.strPool[class])
	}
	var parts []string
	for i, n := 0, r.Range(1, 4); i < n; i++ {
		parts = append(parts, fw.Pick(r, l.strComps))
	}
	text = strings.Join(parts, "/") + "/" + fw.Pick(r, l.strTails)
	switch r.Intn(6) {
	case 0:
		text = l.Tree.BasePath + "/" + text
	case 1:
		text = "/" + text
	}
	return class, text
}

// listed is the directory listing the location enumeration works from.
func listed(n *fsmodel.Node) []string {
	kids := n.SortedKids()
	out := kids[:0:0]
	for _, k := range kids {
		if k != HopName && !strings.HasPrefix(k, SeqPrefix) && !strings.HasPrefix(k, StrPrefix) {
			out = append(out, k)
		}
	}
	return out
}

// hop builds the context "the hop file of directory dir loads req, which
// reaches loader y": chain = hop file, then y's chain; the nested load of the
// location under test is resolved against y's directory (ctxDirs: the
// candidates when req passes through a link).
func (l *Layout) hop(label, via, dir, hopMarker, req string, y Loader, ctxDirs []string) {
	if via == "" {
		via = join(dir, HopName)
	}
	inner := y.Spelled
	if y.InnerSpelled != "" {
		inner = y.InnerSpelled
	}
	l.Hops = append(l.Hops, Loader{Label: label, Spelled: via, Chain: append([]string{hopMarker}, y.Chain...),
		CtxDirs: ctxDirs, InnerSpelled: inner, HopReq: req})
}

// RelPath spells the path from directory `from` to `to` (both sandbox-relative
// paths of plain names) with leading ".." components.
func RelPath(from, to string) string {
	f := split(from)
	t := split(to)
	i := 0
	for i < len(f) && i < len(t) && f[i] == t[i] {
		i++
	}
	var out []string
	for j := i; j < len(f); j++ {
		out = append(out, "..")
	}
	out = append(out, t[i:]...)
	if len(out) == 0 {
		return "."
	}
	return strings.Join(out, "/")
}

func split(p string) []string {
	var out []string
	for _, c := range strings.Split(p, "/") {
		if c != "" {
			out = append(out, c)
		}
	}
	return out
}

func dirOf(p string) string {
	i := strings.LastIndex(p, "/")
	if i < 0 {
		return ""
	}
	return p[:i]
}

func join(a, b string) string {
	if a == "" {
		return b
	}
	if b == "" {
		return a
	}
	return a + "/" + b
}

// link adds a link at rel whose target is the sandbox-relative path to,
// spelled relative to the link's directory, or absolute when abs is set.
func (l *Layout) link(rel, to string, abs bool) {
	if abs {
		l.Tree.AddLink(rel, l.Tree.BasePath+"/"+to)
		return
	}
	l.Tree.AddLink(rel, RelPath(dirOf(rel), to))
}

// NFixed is the number of hand-written layout variants.
const NFixed = 8

type fixedParams struct {
	root string // sandbox-relative root path
	cwd  string // "base", "root", "sub", "out"
}

var fixedVariants = [NFixed]fixedParams{
	{"root", "base"},
	{"root", "root"},
	{"r", "sub"},
	{"a/b/root", "out"},
	{"root.d", "base"},
	{"x/root", "root"},
	{"rootdir", "out"},
	{"p/q/r/s", "sub"},
}

// Build makes layout number variant below base.  Variants < NFixed are the
// hand-written catalogue under different root names/depths and working
// directories; larger variants are generated from r.
func Build(base string, variant int, r *fw.RNG) *Layout {
	if variant >= NearBase {
		return buildNear(base, variant-NearBase, r)
	}
	if variant < NFixed {
		return buildFixed(base, variant, false)
	}
	return buildRandom(base, variant, r)
}

// BuildPlain is the hand-written variant with probe-free file contents.
func BuildPlain(base string, variant int) *Layout { return buildFixed(base, variant, true) }

func buildFixed(base string, variant int, plain bool) *Layout {
	fp := fixedVariants[variant]
	R := fp.root
	l := &Layout{Name: fmt.Sprintf("fixed%d(root=%s,cwd=%s)", variant, R, fp.cwd), Tree: fsmodel.New(base), RootRel: R, Plain: plain}
	t := l.Tree
	in := func(p string) string { return join(R, p) }
	R2, Rx, Rlink, Rl2 := R+"2", R+"x", R+"link", R+"l2"
	// a sibling whose name is a proper prefix of the root's name
	Rpre := R[:len(R)-1]
	if strings.HasSuffix(Rpre, "/") || Rpre == "" {
		Rpre = R + "_"
	}

	// inside the root
	l.file(in("a.lisp"))
	l.file(in("sub/b.lisp"))
	l.file(in("sub/deep/c.lisp"))
	l.file(in("..x/d.lisp"))
	m1 := l.loaderFile(in("ldr.lisp"))
	m2 := l.loaderFile(in("sub/ldr.lisp"))
	m3 := l.loaderFile(in("sub/deep/ldr.lisp"))
	mk2 := l.marker("ldr2")
	t.AddFile(in("ldr2.lisp"), mk2, fmt.Sprintf("(verif:probe '%s) (load-file \"sub/ldr.lisp\")\n", mk2))

	// outside
	l.file(join(R2, "a.lisp"))
	l.file(join(R2, "sub/b.lisp"))
	l.file(join(Rx, "y/a.lisp"))
	l.file(join(Rpre, "a.lisp"))
	l.file("out/s.lisp")
	l.file("out/d/t.lisp")
	l.file("out/a.lisp")
	l.Secret = "c20secret7f3a91"
	t.AddFile("out/secret.txt", "", l.Secret+" ((( not lisp \"\n")

	// links inside the root
	l.link(in("lf_in"), in("sub/b.lisp"), false)
	l.link(in("lf_out"), "out/s.lisp", false)
	l.link(in("lf_out_abs"), "out/s.lisp", true)
	l.link(in("lf_in_abs"), in("a.lisp"), true)
	l.link(in("ld_in"), in("sub"), false)
	l.link(in("ld_deep"), in("sub/deep"), false)
	l.link(in("ld_out"), "out", false)
	l.link(in("ld_out_abs"), "out", true)
	l.link(in("ld_sib"), R2, false)
	t.AddLink(in("ld_up"), "..")
	t.AddLink(in("ld_self"), ".")
	l.link(in("sub/ld_out"), "out/d", false)
	l.link(in("sub/lf_sib"), join(R2, "a.lisp"), false)
	l.link(in("sub/deep/lf_out"), "out/s.lisp", false)
	l.link(in("sub/deep/ld_root"), R, false)
	t.AddLink(in("chain1"), "chain2")
	t.AddLink(in("chain2"), "chain3")
	l.link(in("chain3"), "out/s.lisp", false)
	t.AddLink(in("chin1"), "chin2")
	l.link(in("chin2"), in("sub/b.lisp"), false)
	t.AddLink(in("dchain1"), "dchain2")
	l.link(in("dchain2"), "out", false)
	t.AddLink(in("loop1"), "loop2")
	t.AddLink(in("loop2"), "loop1")
	t.AddLink(in("loopself"), "loopself")
	t.AddLink(in("dangling"), "nothere")
	l.link(in("ld_out_in"), "out/back", false)
	l.link("out/back", in("sub"), false)
	l.link("out/lnk_in", in("a.lisp"), false)
	l.link(in("lk_ldr"), in("sub/ldr.lisp"), false)
	t.AddLink(in("lf_etc"), "/etc/hostname")
	l.link(in("lf_secret"), "out/secret.txt", false)
	t.AddLink(in("ld_base_abs"), base)
	// two-level layouts (round 10, seed C20-r9): a FILE link whose target path stays inside
	// the root as written but passes THROUGH a directory link - the real path of the file is
	// decided by the link in the middle of the target, not by its spelling
	l.link(in("lf_thru_out"), in("ld_out/s.lisp"), false)
	l.link(in("lf_thru_out_abs"), in("ld_out_abs/d/t.lisp"), true)
	l.link(in("lf_thru_in"), in("ld_in/b.lisp"), false)
	l.link(in("sub/lf_thru_sib"), in("ld_sib/a.lisp"), false)
	l.link(in("lf_thru_up"), in("ld_up/"+base_(R2)+"/a.lisp"), false)
	t.AddLink(in("lf_thru_chain"), "lf_thru_out")
	l.link(in("sub/deep/lf_thru_dchain"), in("dchain1/a.lisp"), false)
	// the root reached through links
	l.link(Rlink, R, false)
	l.link(Rl2, Rlink, false)

	l.Root = t.Lookup(R)
	switch fp.cwd {
	case "base":
		l.CwdRel = ""
	case "root":
		l.CwdRel = R
	case "sub":
		l.CwdRel = in("sub")
	case "out":
		l.CwdRel = "out"
	}
	l.Cwd = t.Lookup(l.CwdRel)

	l.Loaders = []Loader{
		{Label: "ldr-root", Spelled: in("ldr.lisp"), Chain: []string{m1}, CtxDirs: []string{R}},
		{Label: "ldr-sub", Spelled: in("sub/ldr.lisp"), Chain: []string{m2}, CtxDirs: []string{in("sub")}},
		{Label: "ldr-deep", Spelled: in("sub/deep/ldr.lisp"), Chain: []string{m3}, CtxDirs: []string{in("sub/deep")}},
		{Label: "ldr-2level", Spelled: in("ldr2.lisp"), Chain: []string{mk2, m2}, CtxDirs: []string{in("sub")}, InnerSpelled: in("sub/ldr.lisp")},
		{Label: "ldr-via-filelink", Spelled: in("lk_ldr"), Chain: []string{m2}, CtxDirs: []string{R, in("sub")}},
		{Label: "ldr-via-dirlink", Spelled: in("ld_deep/ldr.lisp"), Chain: []string{m3}, CtxDirs: []string{in("ld_deep"), in("sub/deep")}},
	}
	if !plain {
		// hop contexts: a file in one directory loads a loader file living in
		// another (or the same) directory by a relative request
		h1 := l.hopFile(R)
		h2 := l.hopFile(in("sub"))
		h3 := l.hopFile(in("sub/deep"))
		ldRoot, ldSub, ldDeep := l.Loaders[0], l.Loaders[1], l.Loaders[2]
		l.hop("hop-root>sub", "", R, h1, "sub/ldr.lisp", ldSub, ldSub.CtxDirs)
		l.hop("hop-sub>deep", "", in("sub"), h2, "deep/ldr.lisp", ldDeep, ldDeep.CtxDirs)
		l.hop("hop-deep>sub", "", in("sub/deep"), h3, "../ldr.lisp", ldSub, ldSub.CtxDirs)
		l.hop("hop-sub>root", "", in("sub"), h2, "../ldr.lisp", ldRoot, ldRoot.CtxDirs)
		l.hop("hop-sub>sub", "", in("sub"), h2, "ldr.lisp", ldSub, ldSub.CtxDirs)
		l.hop("hop-root>deep-unclean", "", R, h1, "./sub//deep/./ldr.lisp", ldDeep, ldDeep.CtxDirs)
		l.hop("hop-sub>deep-via-dirlink", "", in("sub"), h2, "../ld_deep/ldr.lisp", ldDeep, []string{in("ld_deep"), in("sub/deep")})
		l.hop("hop-deep>sub-via-filelink", "", in("sub/deep"), h3, "../../lk_ldr", ldSub, []string{R, in("sub")})
		// the hop file itself reached through a directory link
		l.hop("hop-linked-sub>deep", in("ld_in/"+HopName), in("sub"), h2, "deep/ldr.lisp", ldDeep, []string{in("ld_in/deep"), in("sub/deep")})
		l.buildSeqs([]string{R, in("sub"), in("sub/deep")}, l.Loaders[:3],
			[]string{in("a.lisp"), in("sub/b.lisp"), in("sub/deep/c.lisp"), in("..x/d.lisp")})
		l.buildStrs([]string{R, in("sub"), in("sub/deep")}, l.Loaders[:3], l.Loaders)
	}
	l.finish(Rlink, Rl2)
	l.Starts = uniq([]string{R, in("sub/deep"), l.CwdRel, ""})
	return l
}

// base_ is the last component of a sandbox-relative path.
func base_(p string) string {
	if i := strings.LastIndex(p, "/"); i >= 0 {
		return p[i+1:]
	}
	return p
}

func uniq(xs []string) []string {
	seen := map[string]bool{}
	var out []string
	for _, x := range xs {
		if !seen[x] {
			seen[x] = true
			out = append(out, x)
		}
	}
	return out
}

// finish fills the root spellings.
func (l *Layout) finish(rlink, rl2 string) {
	base := l.Tree.BasePath
	R := l.RootRel
	abs := base + "/" + R
	l.Roots = []RootSpec{
		{"abs", abs},
		{"abs-trailing-slash", abs + "/"},
		{"abs-unclean", base + "/./" + strings.ReplaceAll(R, "/", "//") + "/."},
		{"rel-to-cwd", RelPath(l.CwdRel, R)},
	}
	l.FSRoots = []RootSpec{{"abs", abs}}
	if rlink != "" {
		l.Roots = append(l.Roots, RootSpec{"abs-symlink", base + "/" + rlink})
		l.FSRoots = append(l.FSRoots, RootSpec{"abs-symlink", base + "/" + rlink})
	}
	if rl2 != "" {
		l.Roots = append(l.Roots, RootSpec{"abs-symlink-chain", base + "/" + rl2})
	}
	// a spelling with a ".." through a real subdirectory of the root
	for _, k := range l.Root.SortedKids() {
		if l.Root.Kids[k].Kind == fsmodel.Dir {
			l.Roots = append(l.Roots, RootSpec{"abs-dotdot", abs + "/" + k + "/.."})
			break
		}
	}
}

// buildRandom generates a layout: random directories and files inside the
// root, in prefix-sharing siblings and elsewhere, and random links (relative
// and absolute, to files, directories, other links and nothing).
func buildRandom(base string, variant int, r *fw.RNG) *Layout {
	R := fw.Pick(r, []string{"root", "rt", "w/root", "root-1"})
	l := &Layout{Name: fmt.Sprintf("random%d(root=%s)", variant, R), Tree: fsmodel.New(base), RootRel: R}
	t := l.Tree
	names := []string{"d1", "d2", "sub", "x", "lib"}
	var inDirs = []string{R}
	for i, n := r.Range(2, 5), 0; n < i; n++ {
		parent := fw.Pick(r, inDirs)
		if len(split(parent))-len(split(R)) >= 3 {
			parent = R
		}
		d := join(parent, fw.Pick(r, names))
		if t.Lookup(d) == nil {
			t.Mkdir(d)
			inDirs = append(inDirs, d)
		}
	}
	outDirs := []string{"out", "out/o1", R + "2", R + "x/y", R + "_"}
	for _, d := range outDirs {
		t.Mkdir(d)
	}
	var all []string // every entry path, for link targets
	all = append(all, inDirs...)
	all = append(all, outDirs...)
	nf := 0
	addFiles := func(dirs []string) {
		for _, d := range dirs {
			for k, n := 0, r.Range(1, 2); k < n; k++ {
				nf++
				p := join(d, fmt.Sprintf("f%d.lisp", nf%4))
				if t.Lookup(p) == nil {
					l.file(p)
					all = append(all, p)
				}
			}
		}
	}
	addFiles(inDirs)
	inFiles := append([]string(nil), all[len(inDirs)+len(outDirs):]...)
	addFiles(outDirs)
	l.Secret = "c20secret7f3a91"
	t.AddFile("out/secret.txt", "", l.Secret+" ((( not lisp \"\n")
	all = append(all, "out/secret.txt")

	// loaders: root and up to two inner directories
	ldirs := []string{R}
	for _, d := range inDirs[1:] {
		if len(ldirs) < 3 {
			ldirs = append(ldirs, d)
		}
	}
	for i, d := range ldirs {
		m := l.loaderFile(join(d, "ldr.lisp"))
		l.Loaders = append(l.Loaders, Loader{Label: fmt.Sprintf("ldr-%d", i), Spelled: join(d, "ldr.lisp"), Chain: []string{m}, CtxDirs: []string{d}})
	}

	// links
	nl := r.Range(8, 16)
	var links []string
	for k := 0; k < nl; k++ {
		var dir string
		if r.Chance(4, 5) {
			dir = fw.Pick(r, inDirs)
		} else {
			dir = fw.Pick(r, outDirs)
		}
		p := join(dir, fmt.Sprintf("l%d", k))
		var target string
		switch {
		case r.Chance(1, 12):
			target = "nothere"
		case r.Chance(1, 12) && len(links) > 0:
			// close a cycle through an earlier link
			target = RelPath(dir, fw.Pick(r, links))
		default:
			to := fw.Pick(r, all)
			if r.Chance(1, 3) {
				target = base + "/" + to
			} else {
				target = RelPath(dir, to)
			}
		}
		t.AddLink(p, target)
		links = append(links, p)
		all = append(all, p)
	}
	// one guaranteed cycle and one guaranteed parent link
	t.AddLink(join(R, "cyc_a"), "cyc_b")
	t.AddLink(join(R, "cyc_b"), "cyc_a")
	t.AddLink(join(fw.Pick(r, inDirs), "up"), "..")
	l.link(R+"link", R, false)

	l.Root = t.Lookup(R)
	l.CwdRel = fw.Pick(r, []string{"", R, "out", inDirs[len(inDirs)-1]})
	l.Cwd = t.Lookup(l.CwdRel)
	l.finish(R+"link", "")
	l.Starts = uniq([]string{R, inDirs[len(inDirs)-1], l.CwdRel, ""})
	// a loader reached through a link, if some link denotes a loader's directory or file
	for _, lp := range links {
		ln := t.Lookup(lp)
		res := t.ResolveLink(ln)
		if res.Err != fsmodel.OK || !strings.HasPrefix(lp, R+"/") {
			continue
		}
		for i, d := range ldirs {
			if res.Node == t.Lookup(d) && len(l.Loaders) < 5 {
				base := l.Loaders[i]
				l.Loaders = append(l.Loaders, Loader{Label: base.Label + "-via-dirlink", Spelled: join(lp, "ldr.lisp"), Chain: base.Chain, CtxDirs: []string{lp, d}})
			}
		}
	}
	// hop contexts: every ordered pair of loader directories (the same
	// directory included), and every loader reached through a link from the
	// hop file of the root
	hm := make([]string, len(ldirs))
	for i, d := range ldirs {
		hm[i] = l.hopFile(d)
	}
	for i, dx := range ldirs {
		for j, dy := range ldirs {
			l.hop(fmt.Sprintf("hop-%d>%d", i, j), "", dx, hm[i], RelPath(dx, join(dy, "ldr.lisp")), l.Loaders[j], l.Loaders[j].CtxDirs)
		}
	}
	for _, ld := range l.Loaders[len(ldirs):] {
		l.hop("hop-0>"+strings.TrimPrefix(ld.Label, "ldr-"), "", R, hm[0], RelPath(R, ld.Spelled), ld, ld.CtxDirs)
	}
	l.buildSeqs(ldirs, l.Loaders[:len(ldirs)], inFiles)
	l.buildStrs(ldirs, l.Loaders[:len(ldirs)], l.Loaders)
	return l
}

// Component alphabet helpers ------------------------------------------------

// Locations enumerates the location-string grammar of a layout.
//
// Relative skeletons: every component sequence of length 1..depth obtained by
// walking the model from each start directory, where the next component is
// one of: any entry name of the directory the walk (kernel reading) currently
// stands on, ".", "..", or the non-existent name "nx"; after the walk has left
// the modelled tree or hit a non-directory/missing entry only ".." and one
// further name are tried (these are the spellings on which the lexical and the
// kernel reading of ".." differ).  Forms: every skeleton is emitted plain and
// as an absolute path below its start directory; skeletons additionally get
// "./" prefix, trailing "/", trailing "/." and a doubled separator (all of
// them for length <= 2, a hash-selected one of them for longer skeletons).
// Plus nrand random walks of length depth+1..depth+3 biased towards links and
// "..", and a few absolute paths outside the sandbox.
func Locations(l *Layout, depth int, r *fw.RNG, nrand int) []string {
	t := l.Tree
	set := map[string]bool{}
	emit := func(startAbs string, comps []string) {
		p := strings.Join(comps, "/")
		set[p] = true
		set[startAbs+"/"+p] = true
		forms := []string{"./" + p, p + "/", p + "/.", dbl(comps, 0)}
		if len(comps) <= 2 {
			for _, f := range forms {
				set[f] = true
			}
			set["/"+startAbs+"/"+p] = true // leading "//"
			set[startAbs+"//"+p+"/"] = true
		} else {
			h := fw.HashString(p)
			set[forms[h%4]] = true
			if h%8 == 0 {
				set[dbl(comps, int(h>>8)%(len(comps)-1))] = true
			}
			if h%16 == 1 {
				set[startAbs+"//"+p+"/"] = true
			}
		}
	}
	for _, s := range l.Starts {
		start := t.Lookup(s)
		if start == nil {
			continue
		}
		startAbs := start.Path()
		var dfs func(comps []string, dead int)
		dfs = func(comps []string, dead int) {
			if len(comps) > 0 {
				emit(startAbs, comps)
			}
			if len(comps) >= depth {
				return
			}
			var choices []string
			res := t.Resolve(start, strings.Join(comps, "/"), false)
			if len(comps) == 0 {
				res = fsmodel.Res{Node: start}
			}
			nd := dead
			if res.Err == fsmodel.OK && res.Node.Kind == fsmodel.Dir && !res.Node.Opaque {
				choices = append(choices, listed(res.Node)...)
				choices = append(choices, ".", "..", "nx")
			} else if res.Err == fsmodel.OK && res.Node.Kind == fsmodel.Dir && res.Node.Opaque {
				// above the sandbox: the one known child, and ".."
				choices = append(choices, listed(res.Node)...)
				choices = append(choices, "..")
			} else {
				if dead >= 2 {
					return
				}
				nd = dead + 1
				choices = []string{"..", "a.lisp", "f1.lisp"}
			}
			for _, c := range choices {
				if c == "." && len(comps) > 0 && comps[len(comps)-1] == "." {
					continue
				}
				dfs(append(comps[:len(comps):len(comps)], c), nd)
			}
		}
		dfs(nil, 0)
		// random longer walks
		for k := 0; k < nrand/len(l.Starts); k++ {
			n := depth + 1 + r.Intn(3)
			var comps []string
			for len(comps) < n {
				res := t.Resolve(start, strings.Join(comps, "/"), false)
				if len(comps) == 0 {
					res = fsmodel.Res{Node: start}
				}
				var c string
				if res.Err == fsmodel.OK && res.Node.Kind == fsmodel.Dir && len(res.Node.Kids) > 0 && !r.Chance(1, 4) {
					kids := listed(res.Node)
					// prefer links and directories
					c = fw.Pick(r, kids)
					for tries := 0; tries < 2 && res.Node.Kids[c].Kind == fsmodel.File && len(comps) < n-1; tries++ {
						c = fw.Pick(r, kids)
					}
				} else {
					c = fw.Pick(r, []string{"..", "..", ".", "nx", "a.lisp"})
				}
				comps = append(comps, c)
			}
			emit(startAbs, comps)
		}
	}
	for _, p := range []string{"/etc/hostname", "/etc/passwd", "/", "", ".", "..", "/..", "//", t.BasePath, t.BasePath + "/", Sentinel} {
		set[p] = true
	}
	if l.Near {
		l.anchors(set)
	}
	out := make([]string, 0, len(set))
	for p := range set {
		out = append(out, p)
	}
	sort.Strings(out)
	return out
}

// dbl doubles the separator after component i.
func dbl(comps []string, i int) string {
	if len(comps) < 2 {
		return strings.Join(comps, "/") + "//"
	}
	if i >= len(comps)-1 {
		i = len(comps) - 2
	}
	return strings.Join(comps[:i+1], "/") + "//" + strings.Join(comps[i+1:], "/")
}
