package sandbox

// Near-equal names (C20 round 10).
//
// Every other layout of the check names its directories so that two names are
// either equal or plainly different (the closest pair is the prefix-sharing
// sibling "root" / "root2").  A confinement test that compares the resolved
// root with anything looser than byte equality - ignoring letter case because
// some file systems do, normalising Unicode, trimming what Windows trims - is
// indistinguishable from the exact test on such layouts.  On the file systems
// the check runs on (case-sensitive, normalisation-preserving; probed at run
// time), names that differ in any byte are DIFFERENT directories, so a file
// whose resolved path has a component that is merely near-equal to the root's
// lies outside the root.
//
// A near layout draws the root path (1-3 components) from a pool of realistic
// directory names and puts, next to the root directory and next to one of its
// ancestors, "twins": directories whose name is derived from the component's
// name by one transformation per class (NearClasses), holding a mirror of the
// root's file names below the same tail of components.  Links inside the root
// lead to some of the twins, the working directory is the sandbox, the root, a
// sub-directory, the root's parent or a twin, and the location grammar (which
// walks the model) reaches the twins by absolute paths, ".." walks and links.
// Inside the root one sub-directory and one file have a twin each as well (the
// "wrong file inside the root" side of the same dimension).
//
// The oracle is unchanged: fsmodel decides by real resolved paths.

import (
	"fmt"
	"sort"
	"strings"
	"unicode"
	"unicode/utf8"

	"verifharness/c20x/fsmodel"
	"verifharness/fw"
)

// The classes of near-equal names, in the order NearClass tests them.
const (
	NearCaseASCII   = "letter-case-ascii"          // ASCII letters differ in case only
	NearCaseSameLen = "letter-case-non-ascii"      // simple case folding of non-ASCII letters, same encoded length (\u00e9/\u00c9, \u03c3/\u03c2/\u03a3, \u00b5/\u03bc)
	NearCaseOtherLn = "letter-case-other-length"   // simple case folding across encoded lengths (k/KELVIN SIGN, s/LONG S, \u00e5/ANGSTROM SIGN)
	NearCaseFull    = "letter-case-full-or-turkic" // full / locale case mappings (\u00df/ss, i/dotless \u0131, I/\u0130)
	NearNormal      = "unicode-normalisation"      // NFC / NFD spellings of one name
	NearCompat      = "unicode-compatibility"      // compatibility equivalents (fullwidth letters, ligatures)
	NearTrailing    = "trailing-dot-or-space"      // what Windows trims from the end of a name
	NearIgnorable   = "ignorable-code-point"       // zero-width / soft-hyphen / BOM characters some file systems ignore
	NearShortName   = "dos-short-name"             // the 8.3 alias of a long name
	NearPrefix      = "name-prefix-or-suffix"      // one name is the other plus or minus a few characters
)

// NearClasses lists the classes in a fixed order.
var NearClasses = []string{NearCaseASCII, NearCaseSameLen, NearCaseOtherLn, NearCaseFull, NearNormal, NearCompat, NearTrailing, NearIgnorable, NearShortName, NearPrefix}

// nearPool: realistic directory names carrying the letters the classes need.
var nearPool = []string{"sandbox", "Kiosk", "r\u00e9sum\u00e9", "Stra\u00dfe", "workspace", "lib.d", "\u00c5ngstr\u00f6m", "\u00b5svc", "\u03bb\u03cc\u03b3\u03bf\u03c2", "Program Files", "Diyarbak\u0131r", "projects", "site-packages"}

// canonical decompositions of the composed letters the pool (and its case
// variants) contains: composed -> base letter + combining mark
var nearDecomp = map[rune]string{
	'\u00e9': "e\u0301", '\u00c9': "E\u0301", '\u00f6': "o\u0308", '\u00d6': "O\u0308", '\u00e5': "a\u030a", '\u00c5': "A\u030a",
	'\u03cc': "\u03bf\u0301", '\u038c': "\u039f\u0301", '\u00fc': "u\u0308", '\u00dc': "U\u0308", '\u00f1': "n\u0303", '\u00d1': "N\u0303",
	'\u0130': "I\u0307",
}

var nearIgnorables = []rune{'\u200b', '\u200c', '\u200d', '\u00ad', '\ufeff', '\u2060'}

func isIgnorable(r rune) bool {
	for _, x := range nearIgnorables {
		if r == x {
			return true
		}
	}
	return false
}

func orbit(r rune) []rune {
	out := []rune{r}
	for x := unicode.SimpleFold(r); x != r; x = unicode.SimpleFold(x) {
		out = append(out, x)
	}
	return out
}

func orbitMin(r rune) rune {
	m := r
	for _, x := range orbit(r) {
		if x < m {
			m = x
		}
	}
	return m
}

func asciiLower(s string) string {
	b := []byte(s)
	for i, c := range b {
		if 'A' <= c && c <= 'Z' {
			b[i] = c + 32
		}
	}
	return string(b)
}

func simpleFoldKey(s string) string {
	var sb strings.Builder
	for _, r := range s {
		sb.WriteRune(orbitMin(r))
	}
	return sb.String()
}

// fullFoldKey: simple folding plus the full / Turkic mappings.
func fullFoldKey(s string) string {
	var sb strings.Builder
	for _, r := range s {
		switch r {
		case '\u00df', '\u1e9e':
			sb.WriteString("SS")
		case '\u0131', '\u0130':
			sb.WriteRune('I')
		case '\u0307':
		case '\ufb01':
			sb.WriteString("FI")
		default:
			sb.WriteRune(orbitMin(r))
		}
	}
	return sb.String()
}

func nfdKey(s string) string {
	var sb strings.Builder
	for _, r := range s {
		if d, ok := nearDecomp[r]; ok {
			sb.WriteString(d)
		} else {
			sb.WriteRune(r)
		}
	}
	return sb.String()
}

func compatKey(s string) string {
	var sb strings.Builder
	for _, r := range s {
		switch {
		case r >= 0xff01 && r <= 0xff5e: // fullwidth ASCII block
			sb.WriteRune(r - 0xfee0)
		case r == '\ufb01':
			sb.WriteString("fi")
		case r == '\ufb02':
			sb.WriteString("fl")
		default:
			sb.WriteRune(r)
		}
	}
	return sb.String()
}

func stripIgnorables(s string) string {
	var sb strings.Builder
	for _, r := range s {
		if !isIgnorable(r) {
			sb.WriteRune(r)
		}
	}
	return sb.String()
}

// shortName is the first 8.3 alias Windows would give a long name.
func shortName(s string) string {
	var sb strings.Builder
	n := 0
	for _, r := range s {
		if n == 6 {
			break
		}
		switch {
		case r == ' ' || r == '.':
			continue
		case r < 0x80 && (unicode.IsLetter(r) || unicode.IsDigit(r) || r == '-' || r == '_'):
			sb.WriteRune(unicode.ToUpper(r))
		default:
			sb.WriteRune('_')
		}
		n++
	}
	return sb.String() + "~1"
}

func hasShortName(s string) bool {
	return utf8.RuneCountInString(s) > 8 || strings.ContainsAny(s, " ")
}

// NearClass names the way two different names are near-equal ("" when they
// are equal or plainly different).  It works from canonical keys, not from the
// generator below, so a layout's twins are classified independently of how
// they were made (buildNear checks that both agree).
func NearClass(a, b string) string {
	if a == b {
		return ""
	}
	if asciiLower(a) == asciiLower(b) {
		return NearCaseASCII
	}
	if simpleFoldKey(a) == simpleFoldKey(b) {
		ra, rb := []rune(a), []rune(b)
		for i := range ra {
			if utf8.RuneLen(ra[i]) != utf8.RuneLen(rb[i]) {
				return NearCaseOtherLn
			}
		}
		return NearCaseSameLen
	}
	if fullFoldKey(a) == fullFoldKey(b) {
		return NearCaseFull
	}
	if nfdKey(a) == nfdKey(b) {
		return NearNormal
	}
	if compatKey(a) == compatKey(b) {
		return NearCompat
	}
	if strings.TrimRight(a, " .") == strings.TrimRight(b, " .") {
		return NearTrailing
	}
	if stripIgnorables(a) == stripIgnorables(b) {
		return NearIgnorable
	}
	if (hasShortName(a) && shortName(a) == b) || (hasShortName(b) && shortName(b) == a) {
		return NearShortName
	}
	if strings.HasPrefix(a, b) || strings.HasPrefix(b, a) || strings.HasSuffix(a, b) || strings.HasSuffix(b, a) {
		return NearPrefix
	}
	return ""
}

// nearCandidates lists, per class, the names derived from name by one
// transformation of that class.
func nearCandidates(name string) map[string][]string {
	out := map[string][]string{}
	add := func(class, s string) {
		if s == name || s == "" || s == "." || s == ".." || strings.ContainsAny(s, "/\"\\\x00") {
			return
		}
		for _, x := range out[class] {
			if x == s {
				return
			}
		}
		out[class] = append(out[class], s)
	}
	rs := []rune(name)
	repl := func(i int, with string) string { return string(rs[:i]) + with + string(rs[i+1:]) }
	// letter case through the simple folding orbits, one letter at a time
	for i, r := range rs {
		for _, x := range orbit(r)[1:] {
			switch {
			case r < 0x80 && x < 0x80:
				add(NearCaseASCII, repl(i, string(x)))
			case utf8.RuneLen(r) == utf8.RuneLen(x):
				add(NearCaseSameLen, repl(i, string(x)))
			default:
				add(NearCaseOtherLn, repl(i, string(x)))
			}
		}
	}
	// ... and of the whole name
	up, lo := asciiUpper(name), asciiLower(name)
	add(NearCaseASCII, up)
	add(NearCaseASCII, lo)
	if u := strings.Map(simpleUpper, name); asciiLower(u) != asciiLower(name) && sameRuneLens(u, name) {
		add(NearCaseSameLen, u)
	}
	// full and Turkic mappings
	for i, r := range rs {
		switch r {
		case '\u00df':
			add(NearCaseFull, repl(i, "ss"))
			add(NearCaseFull, repl(i, "SS"))
		case 'i':
			add(NearCaseFull, repl(i, "\u0131"))
			add(NearCaseFull, repl(i, "\u0130"))
		case 'I':
			add(NearCaseFull, repl(i, "\u0131"))
		case '\u0131':
			add(NearCaseFull, repl(i, "i"))
			add(NearCaseFull, repl(i, "I"))
		case 's':
			if i+1 < len(rs) && rs[i+1] == 's' {
				add(NearCaseFull, string(rs[:i])+"\u00df"+string(rs[i+2:]))
			}
		}
	}
	// normalisation: every composed letter decomposed, or just the first
	if d := nfdKey(name); d != name {
		add(NearNormal, d)
		for i, r := range rs {
			if x, ok := nearDecomp[r]; ok {
				add(NearNormal, repl(i, x))
				break
			}
		}
	}
	// compatibility: one ASCII letter, or all of them, in fullwidth form; the fi ligature
	full := func(r rune) rune {
		if r > 0x20 && r < 0x7f {
			return r + 0xfee0
		}
		return r
	}
	for i, r := range rs {
		if r < 0x80 && unicode.IsLetter(r) {
			add(NearCompat, repl(i, string(full(r))))
			break
		}
	}
	add(NearCompat, strings.Map(full, name))
	if i := strings.Index(name, "fi"); i >= 0 {
		add(NearCompat, name[:i]+"\ufb01"+name[i+2:])
	}
	// what Windows trims
	for _, sfx := range []string{".", " ", "..", " .", ". "} {
		add(NearTrailing, name+sfx)
	}
	// ignorable code points
	add(NearIgnorable, name+"\u200b")
	add(NearIgnorable, "\ufeff"+name)
	add(NearIgnorable, name+"\u200d")
	if len(rs) > 2 {
		add(NearIgnorable, string(rs[:len(rs)/2])+"\u00ad"+string(rs[len(rs)/2:]))
	}
	if hasShortName(name) {
		add(NearShortName, shortName(name))
	}
	// prefixes and suffixes
	add(NearPrefix, string(rs[:len(rs)-1]))
	for _, sfx := range []string{"x", "2", "~", ".bak", "-old"} {
		add(NearPrefix, name+sfx)
	}
	// keep what the classifier agrees with (a candidate may fall into an
	// earlier class: "lib.d" minus its last letter is a trailing-dot twin)
	for class, names := range out {
		kept := names[:0]
		for _, s := range names {
			if NearClass(name, s) == class {
				kept = append(kept, s)
			}
		}
		if len(kept) == 0 {
			delete(out, class)
		} else {
			out[class] = kept
		}
	}
	return out
}

func asciiUpper(s string) string {
	b := []byte(s)
	for i, c := range b {
		if 'a' <= c && c <= 'z' {
			b[i] = c - 32
		}
	}
	return string(b)
}

// simpleUpper maps a rune to the upper-case member of its simple folding orbit
// when that member has the same encoded length.
func simpleUpper(r rune) rune {
	u := unicode.ToUpper(r)
	if u != r && utf8.RuneLen(u) == utf8.RuneLen(r) && orbitMin(u) == orbitMin(r) {
		return u
	}
	return r
}

func sameRuneLens(a, b string) bool {
	ra, rb := []rune(a), []rune(b)
	if len(ra) != len(rb) {
		return false
	}
	for i := range ra {
		if utf8.RuneLen(ra[i]) != utf8.RuneLen(rb[i]) {
			return false
		}
	}
	return true
}

// NearTwin is one near-equal directory outside the root.
type NearTwin struct {
	Class string
	Pos   string // root-dir | root-ancestor
	Of    string // the root component it is derived from
	Name  string
	Rel   string // sandbox-relative path of the directory mirroring the root
}

// NearBase is the first variant number of the near layouts.
const NearBase = 1 << 20

// NearPos names the position of the differing component.
func NearPos(i, n int) string {
	if i == n-1 {
		return "root-dir"
	}
	return "root-ancestor"
}

// buildNear makes near layout number k (variant NearBase+k).
func buildNear(base string, k int, r *fw.RNG) *Layout {
	depth := 1 + k%3
	pool := append([]string(nil), nearPool...)
	var comps []string
	for len(comps) < depth {
		i := r.Intn(len(pool))
		comps = append(comps, pool[i])
		pool = append(pool[:i], pool[i+1:]...)
	}
	R := strings.Join(comps, "/")
	l := &Layout{Name: fmt.Sprintf("near%d(root=%s)", k, R), Tree: fsmodel.New(base), RootRel: R, Near: true}
	t := l.Tree
	in := func(p string) string { return join(R, p) }

	// inside the root
	inFiles := []string{in("a.lisp"), in("sub/b.lisp"), in("sub/deep/c.lisp")}
	for _, f := range inFiles {
		l.file(f)
	}
	m1 := l.loaderFile(in("ldr.lisp"))
	m2 := l.loaderFile(in("sub/ldr.lisp"))
	l.Root = t.Lookup(R)

	// twins: for the root directory and (depth > 1) one ancestor, one twin per
	// class applicable to the component's name
	targets := []int{depth - 1}
	if depth > 1 {
		targets = append(targets, r.Intn(depth-1))
	}
	mirror := []string{"a.lisp", "sub/b.lisp"}
	for _, pos := range targets {
		name := comps[pos]
		cands := nearCandidates(name)
		for _, class := range NearClasses {
			if len(cands[class]) == 0 {
				continue
			}
			twin := fw.Pick(r, cands[class])
			top := strings.Join(append(append([]string(nil), comps[:pos]...), twin), "/")
			dir := strings.Join(append([]string{top}, comps[pos+1:]...), "/")
			if t.Lookup(top) != nil {
				continue
			}
			for _, f := range mirror {
				l.file(join(dir, f))
			}
			if pos < depth-1 {
				// and a file directly in the ancestor's twin
				l.file(join(top, "t.lisp"))
			}
			l.Twins = append(l.Twins, NearTwin{Class: class, Pos: NearPos(pos, depth), Of: name, Name: twin, Rel: dir})
		}
	}
	// plainly different outside directories (control)
	l.file("out/s.lisp")
	l.file("out/a.lisp")
	l.Secret = "c20secret7f3a91"
	t.AddFile("out/secret.txt", "", l.Secret+" ((( not lisp \"\n")

	// near-equal names inside the root: a twin of "sub" holding another b.lisp
	// and a twin of "a.lisp"
	for _, pair := range [][2]string{{"sub", "b.lisp"}, {"a.lisp", ""}} {
		cands := nearCandidates(pair[0])
		var classes []string
		for _, c := range NearClasses {
			if len(cands[c]) > 0 && c != NearPrefix {
				classes = append(classes, c)
			}
		}
		twin := fw.Pick(r, cands[fw.Pick(r, classes)])
		p := in(join(twin, pair[1]))
		if t.Lookup(in(twin)) == nil {
			l.file(p)
			l.InsideTwins = append(l.InsideTwins, p)
		}
	}

	// links inside the root leading to twins (relative and absolute targets),
	// to a file in a twin, to the parent, to the control directory
	for i := 0; i < 4 && i < len(l.Twins); i++ {
		tw := l.Twins[(k+i*3)%len(l.Twins)]
		switch i % 2 {
		case 0:
			l.link(in(fmt.Sprintf("ld_n%d", i)), tw.Rel, i%4 == 2)
		default:
			l.link(in(fmt.Sprintf("sub/lf_n%d", i)), join(tw.Rel, "a.lisp"), i%4 == 3)
		}
	}
	t.AddLink(in("ld_up"), "..")
	l.link(in("ld_out"), "out", false)
	l.link(in("lf_in"), in("sub/b.lisp"), false)
	// a link outside leading back in, and the root reached through a link
	l.link("out/back", in("sub"), false)
	l.link("c20rootlink", R, false)

	// working directory: the sandbox, the root, a sub-directory, the root's
	// parent, a twin
	switch k % 5 {
	case 0:
		l.CwdRel = ""
	case 1:
		l.CwdRel = R
	case 2:
		l.CwdRel = l.Twins[r.Intn(len(l.Twins))].Rel
	case 3:
		l.CwdRel = dirOf(R)
	case 4:
		l.CwdRel = in("sub")
	}
	l.Cwd = t.Lookup(l.CwdRel)

	l.Loaders = []Loader{
		{Label: "ldr-root", Spelled: in("ldr.lisp"), Chain: []string{m1}, CtxDirs: []string{R}},
		{Label: "ldr-sub", Spelled: in("sub/ldr.lisp"), Chain: []string{m2}, CtxDirs: []string{in("sub")}},
	}
	h1 := l.hopFile(R)
	h2 := l.hopFile(in("sub"))
	l.hop("hop-root>sub", "", R, h1, "sub/ldr.lisp", l.Loaders[1], l.Loaders[1].CtxDirs)
	l.hop("hop-sub>root", "", in("sub"), h2, "../ldr.lisp", l.Loaders[0], l.Loaders[0].CtxDirs)
	l.hop("hop-sub>sub", "", in("sub"), h2, "ldr.lisp", l.Loaders[1], l.Loaders[1].CtxDirs)
	l.buildSeqs([]string{R, in("sub")}, l.Loaders[:2], inFiles)
	l.buildStrs([]string{R, in("sub")}, l.Loaders[:2], l.Loaders)
	l.finish("c20rootlink", "")
	l.Starts = uniq([]string{R, in("sub"), l.CwdRel, "", dirOf(R)})
	sort.SliceStable(l.Twins, func(i, j int) bool { return l.Twins[i].Rel < l.Twins[j].Rel })
	return l
}

// anchors spells every lisp file of the sandbox absolutely and relative to
// every start directory: whatever the depth of the root, each file on either
// side of it is asked for by a ".." walk from inside and by its full path.
func (l *Layout) anchors(set map[string]bool) {
	t := l.Tree
	for _, f := range t.Files() {
		if f.Marker == "" || f.Name == HopName || strings.HasPrefix(f.Name, SeqPrefix) || strings.HasPrefix(f.Name, StrPrefix) {
			continue
		}
		rel := f.Rel(t.Base)
		set[f.Path()] = true
		for _, s := range l.Starts {
			set[RelPath(s, rel)] = true
		}
	}
}
