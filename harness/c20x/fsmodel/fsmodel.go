// Package fsmodel is an in-memory model of a directory tree with symbolic
// links.  The C20 check builds every sandbox from such a model, so the model
// knows where every link points and can resolve any path spelling to the real
// file it denotes without asking the operating system (no EvalSymlinks, no
// realpath, no Lstat): it is the independent oracle for "which file does this
// location denote, and is that file under the root?".
//
// The tree starts at the real "/" so that absolute spellings, absolute link
// targets and paths climbing above the sandbox are resolved by the same walk.
// The ancestors of the sandbox directory are "opaque" directories: the model
// knows only the one child that leads to the sandbox; any other name below an
// opaque directory resolves to Unknown (certainly outside every root).
package fsmodel

import (
	"fmt"
	"io/fs"
	"os"
	"sort"
	"strings"
	"testing/fstest"
)

type Kind int

const (
	Dir Kind = iota
	File
	Link
)

// Node is one directory entry.
type Node struct {
	Kind    Kind
	Name    string
	Parent  *Node
	Kids    map[string]*Node
	Content string // File
	Marker  string // File: unique tag probed by the file's lisp code ("" for non-lisp files)
	Target  string // Link: the literal link text
	Opaque  bool   // Dir above the sandbox whose other children are unknown
}

// Tree is a model rooted at the real "/".
type Tree struct {
	Top       *Node  // "/"
	Base      *Node  // the sandbox directory
	BasePath  string // its real absolute path
	ByContent map[string]*Node
	ByMarker  map[string]*Node
}

// New makes a tree whose sandbox directory is the absolute, symlink-free,
// clean path base.
func New(base string) *Tree {
	t := &Tree{ByContent: map[string]*Node{}, ByMarker: map[string]*Node{}, BasePath: base}
	t.Top = &Node{Kind: Dir, Name: "", Kids: map[string]*Node{}, Opaque: true}
	t.Top.Parent = t.Top
	cur := t.Top
	for _, c := range strings.Split(strings.TrimPrefix(base, "/"), "/") {
		if c == "" {
			continue
		}
		n := &Node{Kind: Dir, Name: c, Parent: cur, Kids: map[string]*Node{}, Opaque: true}
		cur.Kids[c] = n
		cur = n
	}
	cur.Opaque = false
	t.Base = cur
	return t
}

// Path is the node's real absolute path (through real directories only).
func (n *Node) Path() string {
	if n.Parent == n {
		return "/"
	}
	var parts []string
	for c := n; c.Parent != c; c = c.Parent {
		parts = append(parts, c.Name)
	}
	var sb strings.Builder
	for i := len(parts) - 1; i >= 0; i-- {
		sb.WriteByte('/')
		sb.WriteString(parts[i])
	}
	return sb.String()
}

// Under reports whether n lies strictly below dir.
func (n *Node) Under(dir *Node) bool {
	if n == dir {
		return false
	}
	for c := n; ; c = c.Parent {
		if c == dir {
			return true
		}
		if c.Parent == c {
			return false
		}
	}
}

// UnderOrSelf reports n == dir or n below dir.
func (n *Node) UnderOrSelf(dir *Node) bool { return n == dir || n.Under(dir) }

// Rel is n's path relative to dir ("" when n == dir); n must be under dir.
func (n *Node) Rel(dir *Node) string {
	var parts []string
	for c := n; c != dir; c = c.Parent {
		if c.Parent == c {
			return ""
		}
		parts = append(parts, c.Name)
	}
	for i, j := 0, len(parts)-1; i < j; i, j = i+1, j-1 {
		parts[i], parts[j] = parts[j], parts[i]
	}
	return strings.Join(parts, "/")
}

// at returns the directory node for a sandbox-relative path of plain names,
// creating missing directories.
func (t *Tree) mkdirs(rel string) *Node {
	cur := t.Base
	for _, c := range strings.Split(rel, "/") {
		if c == "" {
			continue
		}
		k := cur.Kids[c]
		if k == nil {
			k = &Node{Kind: Dir, Name: c, Parent: cur, Kids: map[string]*Node{}}
			cur.Kids[c] = k
		}
		if k.Kind != Dir {
			panic("fsmodel: " + rel + ": component " + c + " is not a directory")
		}
		cur = k
	}
	return cur
}

func splitLast(rel string) (dir, name string) {
	i := strings.LastIndex(rel, "/")
	if i < 0 {
		return "", rel
	}
	return rel[:i], rel[i+1:]
}

// Mkdir adds a directory (sandbox-relative path of plain names).
func (t *Tree) Mkdir(rel string) *Node { return t.mkdirs(rel) }

// AddFile adds a regular file.
func (t *Tree) AddFile(rel, marker, content string) *Node {
	d, name := splitLast(rel)
	dir := t.mkdirs(d)
	if dir.Kids[name] != nil {
		panic("fsmodel: duplicate " + rel)
	}
	if _, dup := t.ByContent[content]; dup {
		panic("fsmodel: duplicate content " + content)
	}
	n := &Node{Kind: File, Name: name, Parent: dir, Content: content, Marker: marker}
	dir.Kids[name] = n
	t.ByContent[content] = n
	if marker != "" {
		t.ByMarker[marker] = n
	}
	return n
}

// AddLink adds a symbolic link with the literal target text.
func (t *Tree) AddLink(rel, target string) *Node {
	d, name := splitLast(rel)
	dir := t.mkdirs(d)
	if dir.Kids[name] != nil {
		panic("fsmodel: duplicate " + rel)
	}
	n := &Node{Kind: Link, Name: name, Parent: dir, Target: target}
	dir.Kids[name] = n
	return n
}

// AddLinkIn adds a symbolic link called name to directory dir.
func (t *Tree) AddLinkIn(dir *Node, name, target string) *Node {
	if dir.Kind != Dir || dir.Kids[name] != nil {
		panic("fsmodel: cannot add link " + name + " to " + dir.Path())
	}
	n := &Node{Kind: Link, Name: name, Parent: dir, Target: target}
	dir.Kids[name] = n
	return n
}

// Rename gives n a new name within its directory (the model's side of a
// rename(2) inside one directory).  The node keeps its identity, so everything
// below it moves with it.
func (t *Tree) Rename(n *Node, newName string) {
	p := n.Parent
	if p == n || p.Kids[n.Name] != n || p.Kids[newName] != nil {
		panic("fsmodel: cannot rename " + n.Path() + " to " + newName)
	}
	delete(p.Kids, n.Name)
	n.Name = newName
	p.Kids[newName] = n
}

// Dirs lists the real directories of the sandbox (the sandbox directory
// itself first, then sorted by path).
func (t *Tree) Dirs() []*Node {
	var out []*Node
	var rec func(n *Node)
	rec = func(n *Node) {
		if n.Kind != Dir {
			return
		}
		out = append(out, n)
		for _, k := range n.SortedKids() {
			rec(n.Kids[k])
		}
	}
	rec(t.Base)
	return out
}

// LinkNodes lists the symbolic links of the sandbox (sorted by path).
func (t *Tree) LinkNodes() []*Node {
	var out []*Node
	var rec func(n *Node)
	rec = func(n *Node) {
		switch n.Kind {
		case Dir:
			for _, k := range n.SortedKids() {
				rec(n.Kids[k])
			}
		case Link:
			out = append(out, n)
		}
	}
	rec(t.Base)
	return out
}

// Lookup returns the node at a sandbox-relative path of plain names without
// following links (nil if absent).
func (t *Tree) Lookup(rel string) *Node {
	cur := t.Base
	for _, c := range strings.Split(rel, "/") {
		if c == "" {
			continue
		}
		if cur.Kind != Dir {
			return nil
		}
		cur = cur.Kids[c]
		if cur == nil {
			return nil
		}
	}
	return cur
}

// SortedKids lists a directory's entry names.
func (n *Node) SortedKids() []string {
	out := make([]string, 0, len(n.Kids))
	for k := range n.Kids {
		out = append(out, k)
	}
	sort.Strings(out)
	return out
}

// Materialize creates the sandbox's entries on disk below BasePath (which
// must already exist and be empty).
func (t *Tree) Materialize() error {
	var rec func(n *Node) error
	rec = func(n *Node) error {
		p := n.Path()
		switch n.Kind {
		case Dir:
			if n != t.Base {
				if err := os.Mkdir(p, 0o755); err != nil {
					return err
				}
			}
			for _, k := range n.SortedKids() {
				if err := rec(n.Kids[k]); err != nil {
					return err
				}
			}
		case File:
			return os.WriteFile(p, []byte(n.Content), 0o644)
		case Link:
			return os.Symlink(n.Target, p)
		}
		return nil
	}
	return rec(t.Base)
}

// MapFS copies the subtree below root into an in-memory file system.  Link
// cycles are left out when skipLoops is set (testing/fstest.MapFS recurses
// without bound on a cycle — a property of the Go library, not of the code
// under test).
func (t *Tree) MapFS(root *Node, skipLoops bool) fstest.MapFS {
	m := fstest.MapFS{}
	var rec func(n *Node)
	rec = func(n *Node) {
		rel := n.Rel(root)
		switch n.Kind {
		case Dir:
			if n != root {
				m[rel] = &fstest.MapFile{Mode: fs.ModeDir | 0o755}
			}
			for _, k := range n.SortedKids() {
				rec(n.Kids[k])
			}
		case File:
			m[rel] = &fstest.MapFile{Data: []byte(n.Content), Mode: 0o644}
		case Link:
			if skipLoops {
				r := t.Resolve(n.Parent, n.Name, false)
				if r.Err == ELOOP {
					return
				}
			}
			m[rel] = &fstest.MapFile{Data: []byte(n.Target), Mode: fs.ModeSymlink | 0o777}
		}
	}
	rec(root)
	return m
}

// ---------------------------------------------------------------------------
// resolution

type Errno string

const (
	OK      Errno = ""
	ENOENT  Errno = "ENOENT"
	ENOTDIR Errno = "ENOTDIR"
	ELOOP   Errno = "ELOOP"
	Unknown Errno = "UNKNOWN" // left the modelled part of the file system
)

// LinkStep records one symbolic link followed during a walk.
type LinkStep struct {
	Link    *Node
	OrigIdx int  // index of the component in the walked path, -1 if the link came from another link's target
	Last    bool // it was the last meaningful component of the walked path
	From    *Node
}

// Res is the result of resolving a path.
type Res struct {
	Node    *Node // the file or directory reached when Err == OK
	Err     Errno
	Links   []LinkStep
	Visited []*Node // every directory/file the walk stood on, in order (start excluded)
}

// LexClean is a lexical path cleaner with the documented semantics of Go's
// path.Clean (written out here so the oracle shares no code with the library
// under test): collapse separators, drop ".", cancel "name/..", keep leading
// ".." of relative paths, drop ".." at the root of absolute paths.
func LexClean(p string) string {
	if p == "" {
		return "."
	}
	abs := strings.HasPrefix(p, "/")
	var out []string
	for _, c := range strings.Split(p, "/") {
		switch c {
		case "", ".":
		case "..":
			if len(out) > 0 && out[len(out)-1] != ".." {
				out = out[:len(out)-1]
			} else if !abs {
				out = append(out, "..")
			}
		default:
			out = append(out, c)
		}
	}
	s := strings.Join(out, "/")
	if abs {
		return "/" + s
	}
	if s == "" {
		return "."
	}
	return s
}

const maxLinks = 40

type qitem struct {
	name string
	idx  int
}

// Resolve walks path p the way the kernel does (component by component,
// following every symbolic link, ".." meaning the parent of the directory
// actually reached).  A relative p starts at start; an absolute p starts at
// "/".  With lexical set the path is first cleaned lexically (".." cancels the
// preceding name textually) and then walked — the other common reading of a
// path string.  A trailing separator or "/." after a non-directory is ENOTDIR
// in the kernel reading and ignored in the lexical one.
func (t *Tree) Resolve(start *Node, p string, lexical bool) Res {
	if lexical {
		p = LexClean(p)
	}
	var res Res
	cur := start
	if strings.HasPrefix(p, "/") {
		cur = t.Top
	}
	parts := strings.Split(p, "/")
	lastMeaningful := -1
	for i, c := range parts {
		if c != "" && c != "." {
			lastMeaningful = i
		}
	}
	q := make([]qitem, 0, len(parts))
	for i, c := range parts {
		q = append(q, qitem{c, i})
	}
	nlinks := 0
	for len(q) > 0 {
		it := q[0]
		q = q[1:]
		c := it.name
		if it.idx == 0 && c == "" && strings.HasPrefix(p, "/") {
			continue // the leading "/" itself
		}
		if cur.Kind != Dir {
			res.Err = ENOTDIR
			return res
		}
		switch c {
		case "", ".":
			continue
		case "..":
			cur = cur.Parent
			res.Visited = append(res.Visited, cur)
			continue
		}
		kid := cur.Kids[c]
		if kid == nil {
			if cur.Opaque {
				res.Err = Unknown
			} else {
				res.Err = ENOENT
			}
			return res
		}
		if kid.Kind == Link {
			nlinks++
			if nlinks > maxLinks {
				res.Err = ELOOP
				return res
			}
			res.Links = append(res.Links, LinkStep{Link: kid, OrigIdx: it.idx, Last: it.idx == lastMeaningful, From: cur})
			tparts := strings.Split(kid.Target, "/")
			nq := make([]qitem, 0, len(tparts)+len(q))
			if strings.HasPrefix(kid.Target, "/") {
				cur = t.Top
				res.Visited = append(res.Visited, cur)
			}
			if kid.Target == "" {
				res.Err = ENOENT
				return res
			}
			for _, tc := range tparts {
				nq = append(nq, qitem{tc, -1})
			}
			q = append(nq, q...)
			continue
		}
		cur = kid
		res.Visited = append(res.Visited, cur)
	}
	res.Node = cur
	return res
}

// ResolveLink fully resolves what a link ultimately denotes.
func (t *Tree) ResolveLink(l *Node) Res { return t.Resolve(l.Parent, l.Name, false) }

// Files lists all regular files in the sandbox (sorted by path).
func (t *Tree) Files() []*Node {
	var out []*Node
	var rec func(n *Node)
	rec = func(n *Node) {
		switch n.Kind {
		case Dir:
			for _, k := range n.SortedKids() {
				rec(n.Kids[k])
			}
		case File:
			out = append(out, n)
		}
	}
	rec(t.Base)
	return out
}

// Dump renders the sandbox for replay output.
func (t *Tree) Dump() string {
	var sb strings.Builder
	var rec func(n *Node, ind string)
	rec = func(n *Node, ind string) {
		switch n.Kind {
		case Dir:
			fmt.Fprintf(&sb, "%s%s/\n", ind, n.Name)
			for _, k := range n.SortedKids() {
				rec(n.Kids[k], ind+"  ")
			}
		case File:
			fmt.Fprintf(&sb, "%s%s  [%s]\n", ind, n.Name, n.Marker)
		case Link:
			fmt.Fprintf(&sb, "%s%s -> %s\n", ind, n.Name, n.Target)
		}
	}
	rec(t.Base, "")
	return sb.String()
}
