package c14x

import (
	"strings"
	"unicode/utf8"
)

// Out is a set of outcomes of (s:validate validator value).
type Out uint8

const (
	Accept Out = 1 << iota
	WrongType
	FailedConstraint

	Reject  = WrongType | FailedConstraint
	Unknown = Accept | Reject // documentation does not decide
)

func (o Out) String() string {
	var p []string
	if o&Accept != 0 {
		p = append(p, "accept")
	}
	if o&WrongType != 0 {
		p = append(p, "wrong-type")
	}
	if o&FailedConstraint != 0 {
		p = append(p, "failed-constraint")
	}
	if len(p) == 0 {
		return "none"
	}
	return strings.Join(p, "|")
}

// Judged reports whether the documentation decides accept-versus-reject.
func (o Out) Judged() bool { return o&Accept == 0 || o&Reject == 0 }

// Documented type names.
var TypeNames = []string{"int", "float", "number", "string", "bytes", "any", "array", "bool", "tagged-value", "error", "fun", "sorted-map"}

// RefKind distinguishes what stands in a "type" position.
type RefKind int

const (
	RType      RefKind = iota // a type name (s:int or "int")
	RValidator                // a validator made by s:deftype / s:make-validator
	RCons                     // a constraint object (documented for s:when conditions)
)

// Ref is the content of a type/condition slot.
type Ref struct {
	Kind     RefKind
	Type     string
	AsString bool // render "int" instead of s:int
	V        *Schema
	Quoted   bool // render 'name instead of name
	C        *Cons
	Raw      string // malformed content: rendered verbatim
}

// Cons is one constraint constructor application.
type Cons struct {
	Op    string   // in gt gte lt lte positive negative len lengt lengte lenlt lenlte of has-key may-have-key no-other-keys when not is-true is-false is-truthy is-falsy regexp
	Vals  []*Value // in: allowed values
	Num   *Value   // gt gte lt lte: the constant
	N     int      // len*: the length
	Key   string   // has-key may-have-key when
	Key2  string   // when: matchKey
	Refs  []*Ref   // of / has-key / may-have-key: allowed types; when: Refs[0] guard, Refs[1:] conditions
	Inner []*Cons  // no-other-keys children; not: Inner[0] (or NotRef)
	NotV  *Schema  // not around a validator
	Pat   *Pattern
	Raw   string // malformed: rendered verbatim instead of everything above
	// in: the language's own equality as a second reference (see EqualRef); nil
	// = pairs the constraint's documentation alone does not decide stay unjudged.
	EqRef EqualRef
	// in: told every time the constraint meets an input that is kin to an
	// allowed value (coverage of that input class is measured, not assumed).
	OnKin func(kin string, verdict int)
}

// EqualRef answers "are v and a equal as far as the LANGUAGE is concerned" —
// (equal? v a), evaluated by the caller in the runtime under test: 1 equal,
// 0 different, -1 no answer.  s:in is documented as "checks if the input is
// equal to one of the allowed values"; the only equality the language defines
// is equal? ("structurally equal, performing deep comparison across all value
// types"), so wherever the libschema text on its own leaves a pair open (is 1
// equal to 1.0?  "red" to 'red?  two maps, two tagged values?) membership must
// agree with equal?.  The model itself stays free of interpreter calls: the
// reference is injected.
type EqualRef func(v, a *Value) int

// How a schema is built.
const (
	ViaDeftype = iota
	ViaMake
	ViaTypedef // (s:make-validator <typedef> type constraints...)
)

// Schema is one validator definition.
type Schema struct {
	Name     string
	Via      int
	Type     string
	AsString bool
	Sub      string // tagged-value: type of the user data ("" = none)
	SubAsStr bool
	Typedef  string // ViaTypedef: name of the typedef
	Cons     []*Cons
	Base     *Schema // the base type is this validator, built earlier (Type is then ""); Cons are declared on top of it
	BaseQ    bool    // render the base as 'name instead of name
	RawType  string  // malformed: rendered verbatim as the type argument
	RawTail  string  // malformed: extra raw arguments appended
	RawForm  string  // malformed: the whole defining form, verbatim
}

func typeSrc(t string, asString bool) string {
	if asString {
		return quoteStr(t)
	}
	return "s:" + t
}

// Src renders the reference.
func (r *Ref) Src() string {
	if r.Raw != "" {
		return r.Raw
	}
	switch r.Kind {
	case RType:
		return typeSrc(r.Type, r.AsString)
	case RValidator:
		if r.Quoted {
			return "'" + r.V.Name
		}
		return r.V.Name
	}
	return r.C.Src()
}

// OpKey names the constraint for finding keys ("has-key/no-types" is its own
// documented form).
func (c *Cons) OpKey() string {
	if (c.Op == "has-key" || c.Op == "may-have-key") && len(c.Refs) == 0 {
		return c.Op + "/no-types"
	}
	return c.Op
}

// Src renders the constraint expression.
func (c *Cons) Src() string {
	if c.Raw != "" {
		return c.Raw
	}
	var sb strings.Builder
	sb.WriteString("(s:" + c.Op)
	switch c.Op {
	case "in":
		for _, v := range c.Vals {
			sb.WriteString(" " + v.Render())
		}
	case "gt", "gte", "lt", "lte":
		sb.WriteString(" " + c.Num.Render())
	case "len", "lengt", "lengte", "lenlt", "lenlte":
		sb.WriteString(" " + Int(int64(c.N)).Render())
	case "of":
		for _, r := range c.Refs {
			sb.WriteString(" " + r.Src())
		}
	case "has-key", "may-have-key":
		sb.WriteString(" " + quoteStr(c.Key))
		for _, r := range c.Refs {
			sb.WriteString(" " + r.Src())
		}
	case "no-other-keys":
		for _, i := range c.Inner {
			sb.WriteString(" " + i.Src())
		}
	case "when":
		sb.WriteString(" " + quoteStr(c.Key) + " " + c.Refs[0].Src() + " " + quoteStr(c.Key2))
		for _, r := range c.Refs[1:] {
			sb.WriteString(" " + r.Src())
		}
	case "not":
		if c.NotV != nil {
			sb.WriteString(" " + c.NotV.Name)
		} else {
			sb.WriteString(" " + c.Inner[0].Src())
		}
	case "regexp":
		sb.WriteString(" " + quoteStr(c.Pat.Source()))
	}
	sb.WriteByte(')')
	return sb.String()
}

// Def renders the defining form.  For ViaMake / ViaTypedef the validator is
// bound to a global of the same name so that later forms can refer to it.
func (s *Schema) Def() string {
	if s.RawForm != "" {
		return s.RawForm
	}
	var sb strings.Builder
	switch s.Via {
	case ViaDeftype:
		sb.WriteString("(s:deftype " + quoteStr(s.Name))
	case ViaMake:
		sb.WriteString("(set '" + s.Name + " (s:make-validator " + quoteStr(s.Name))
	case ViaTypedef:
		sb.WriteString("(set '" + s.Name + " (s:make-validator " + s.Typedef)
	}
	if s.RawType != "" {
		sb.WriteString(" " + s.RawType)
	} else if s.Base != nil {
		if s.BaseQ {
			sb.WriteString(" '" + s.Base.Name)
		} else {
			sb.WriteString(" " + s.Base.Name)
		}
	} else if s.Via == ViaTypedef {
		sb.WriteString(" " + typeSrc(s.Sub, s.SubAsStr))
	} else {
		sb.WriteString(" " + typeSrc(s.Type, s.AsString))
		if s.Type == "tagged-value" && s.Sub != "" {
			sb.WriteString(" " + typeSrc(s.Sub, s.SubAsStr))
		}
	}
	for _, c := range s.Cons {
		sb.WriteString(" " + c.Src())
	}
	sb.WriteString(s.RawTail)
	sb.WriteByte(')')
	if s.Via != ViaDeftype {
		sb.WriteByte(')')
	}
	return sb.String()
}

// Deps returns the validators s refers to, dependencies first, s last, each
// once.
func (s *Schema) Deps() []*Schema {
	var out []*Schema
	seen := map[*Schema]bool{}
	var walkS func(*Schema)
	var walkC func(*Cons)
	walkR := func(r *Ref) {
		switch r.Kind {
		case RValidator:
			if r.V != nil {
				walkS(r.V)
			}
		case RCons:
			if r.C != nil {
				walkC(r.C)
			}
		}
	}
	walkC = func(c *Cons) {
		for _, r := range c.Refs {
			walkR(r)
		}
		for _, i := range c.Inner {
			walkC(i)
		}
		if c.NotV != nil {
			walkS(c.NotV)
		}
	}
	walkS = func(x *Schema) {
		if seen[x] {
			return
		}
		seen[x] = true
		if x.Base != nil {
			walkS(x.Base)
		}
		for _, c := range x.Cons {
			walkC(c)
		}
		out = append(out, x)
	}
	walkS(s)
	return out
}

// ---------------------------------------------------------------------------
// the documented meaning

// HasType: the README's type table and the symbol docs.
//
//	int: integer; float: floating point; number: any number; string; bytes;
//	any: any value; array; bool: boolean values (true or false);
//	tagged-value; fun: a function; sorted-map.
func HasType(t string, v *Value) bool {
	switch t {
	case "int":
		return v.K == VInt
	case "float":
		return v.K == VFloat
	case "number":
		return v.K == VInt || v.K == VFloat
	case "string":
		return v.K == VStr
	case "bytes":
		return v.K == VBytes
	case "any":
		return true
	case "array":
		return v.K == VArr
	case "bool":
		return v.K == VSym && (v.S == "true" || v.S == "false")
	case "tagged-value":
		return v.K == VTagged
	case "fun":
		return v.K == VFun
	case "sorted-map":
		return v.K == VMap
	}
	return false
}

// BoolString reports whether v is the STRING "true" or "false".  The
// documentation calls s:bool "boolean values (true or false)" and s:is-true
// "the boolean true symbol", but the repository's own test deftype-bool
// asserts that (s:validate <s:bool (s:is-true)> "true") passes, so the intent
// is ambiguous: these two strings are NOT JUDGED against s:bool, and "true"
// against s:is-true / "false" against s:is-false likewise (coordinator
// decision; everything else, e.g. any other string, stays judged).
func BoolString(v *Value) bool { return v.K == VStr && (v.S == "true" || v.S == "false") }

// TypeOut is the documented outcome of the bare type check: accept,
// wrong-type, or both for the not-judged bool strings.
func TypeOut(t string, v *Value) Out {
	if t == "bool" && BoolString(v) {
		return Accept | WrongType
	}
	if HasType(t, v) {
		return Accept
	}
	return WrongType
}

// conj: every member must hold.  Which failing member is reported first is not
// documented, so the reject kinds are the union.
func conj(outs []Out) Out {
	res := Accept
	var rej Out
	for _, o := range outs {
		if o&Accept == 0 {
			res &^= Accept
		}
		rej |= o & Reject
	}
	return res | rej
}

// disj: "matches one of the allowed types".  The condition reported when none
// matches is not documented precisely (the code says wrong-type; a reader of
// the README could equally expect failed-constraint), so both are allowed.
func disj(outs []Out) Out {
	mayAccept, mustAccept, mayReject := false, false, true
	for _, o := range outs {
		if o&Accept != 0 {
			mayAccept = true
		}
		if o == Accept {
			mustAccept = true
		}
		if o&Reject == 0 {
			mayReject = false
		}
	}
	var res Out
	if mayAccept {
		res |= Accept
	}
	if mayReject && !mustAccept {
		res |= Reject
	}
	return res
}

func widen(o Out) Out { // keep accept/reject decision, allow either reject condition
	if o&Reject != 0 {
		return o | Reject
	}
	return o
}

// EvalSchema is the documented outcome of validating v with s.
func EvalSchema(s *Schema, v *Value) Out {
	if s.Base != nil {
		// "exactly when the value has the declared type and satisfies every
		// constraint": the declared type is the base validator's meaning, the
		// constraints are declared on top of it.  Which of two failures is
		// reported is not documented.
		return conj([]Out{EvalSchema(s.Base, v), evalConsList(s.Cons, v)})
	}
	if s.Via == ViaTypedef {
		if v.K != VTagged {
			return WrongType
		}
		if v.S != s.Typedef {
			// Whether the validator also checks WHICH typedef made the value is
			// not documented.
			return Unknown
		}
		return evalTyped(s.Sub, s.Cons, v.User)
	}
	if s.Type == "tagged-value" {
		if v.K != VTagged {
			return WrongType
		}
		if s.Sub == "" {
			return evalConsList(s.Cons, v.User)
		}
		return evalTyped(s.Sub, s.Cons, v.User)
	}
	return evalTyped(s.Type, s.Cons, v)
}

func evalTyped(t string, cons []*Cons, v *Value) Out {
	switch TypeOut(t, v) {
	case WrongType:
		return WrongType // README: "If the value does not have the required type ... wrong-type"
	case Accept:
		return evalConsList(cons, v)
	}
	return WrongType | evalConsList(cons, v) // type membership not judged

}

func evalConsList(cons []*Cons, v *Value) Out {
	outs := make([]Out, len(cons))
	for i, c := range cons {
		outs[i] = EvalCons(c, v)
	}
	return conj(outs)
}

// EvalRef is the outcome of applying the content of a type slot to v.
func EvalRef(r *Ref, v *Value) Out {
	switch r.Kind {
	case RType:
		return TypeOut(r.Type, v)
	case RValidator:
		return EvalSchema(r.V, v)
	}
	return EvalCons(r.C, v)
}

func evalRefsAny(refs []*Ref, v *Value) Out {
	if len(refs) == 0 {
		return Accept // "optionally requiring the value therein to be of type"
	}
	outs := make([]Out, len(refs))
	for i, r := range refs {
		outs[i] = EvalRef(r, v)
	}
	return disj(outs)
}

func boolOut(ok bool) Out {
	if ok {
		return Accept
	}
	return FailedConstraint
}

// ValueEqual is the part of "equal to one of the allowed values" that needs no
// reference beyond the words themselves: 1 = equal, 0 = different, -1 = open
// (decided by the language's equal? when an EqualRef is at hand, else not
// judged).
//
// Open: int against float that coincide as float64 (is 1 equal to 1.0?),
// string against symbol of the same spelling, everything that involves bytes
// of the same content, containers / tagged values / functions of the same
// kind.  Decided: scalars of one kind by content; numbers that differ even
// after rounding to float64; values of different kinds otherwise.
func ValueEqual(a, b *Value) int {
	if a.IsNum() && b.IsNum() {
		if a.K == b.K {
			c, ok := NumCmp(a, b)
			if !ok {
				return -1
			}
			if c == 0 {
				return 1
			}
			return 0
		}
		fa, fb := toF(a), toF(b)
		if fa != fb {
			return 0
		}
		return -1
	}
	if a.K != b.K {
		ta, oka := textOf(a)
		tb, okb := textOf(b)
		if oka && okb && ta == tb {
			return -1 // "red" / 'red / (to-bytes "red")
		}
		return 0
	}
	switch a.K {
	case VStr, VSym:
		if a.S == b.S {
			return 1
		}
		return 0
	case VNil:
		return 1
	case VBytes:
		if string(a.B) != string(b.B) {
			return 0
		}
		// Same content: "equal" by any plain reading, but the language defines no
		// structural equality for bytes ((equal? b b) is false), and s:in is
		// documented in terms of "equal": left to the reference.
		return -1
	}
	return -1
}

func toF(v *Value) float64 {
	if v.K == VInt {
		return float64(v.I)
	}
	return v.F
}

// Truthy is the documented truthiness: 1 truthy, 0 not truthy, -1 undecided.
//
// Docstring of s:is-truthy: "Truthy values include: true, non-empty strings
// (not "false"), non-empty arrays/maps/bytes, and positive numbers."
// README: "Strings must be non-empty and not equal to "false", arrays must be
// non-empty etc."
func Truthy(v *Value) int {
	b := func(x bool) int {
		if x {
			return 1
		}
		return 0
	}
	switch v.K {
	case VSym:
		if v.S == "true" {
			return 1
		}
		if v.S == "false" {
			return 0
		}
		return -1
	case VStr:
		return b(v.S != "" && v.S != "false")
	case VArr:
		return b(len(v.Elems) > 0)
	case VMap:
		return b(len(v.Entries) > 0)
	case VBytes:
		return b(len(v.B) > 0)
	case VInt:
		return b(v.I > 0)
	case VFloat:
		return b(v.F > 0)
	}
	return -1
}

// EvalCons is the documented outcome of one constraint on v.
func EvalCons(c *Cons, v *Value) Out {
	switch c.Op {
	case "raw":
		// A malformed piece inserted by the harness.  It has no documented
		// meaning; treating it as absent gives the counterfactual "the same
		// schema without the malformed piece" used to decide whether a pass was
		// CAUSED by the malformation.
		return Accept
	case "in":
		undecided := false
		for _, a := range c.Vals {
			eq := ValueEqual(v, a)
			if eq == -1 && c.EqRef != nil {
				eq = c.EqRef(v, a)
			}
			if c.OnKin != nil {
				if kin := KinOf(v, a); kin != "" {
					c.OnKin(kin, eq)
				}
			}
			switch eq {
			case 1:
				return Accept
			case -1:
				undecided = true
			}
		}
		if undecided {
			return Accept | FailedConstraint
		}
		return FailedConstraint
	case "gt", "gte", "lt", "lte", "positive", "negative":
		if !v.IsNum() {
			// "Works with numeric types": a non-number is not greater/less than
			// anything, but which condition reports it is not documented.
			return Reject
		}
		k := c.Num
		if c.Op == "positive" || c.Op == "negative" {
			k = Int(0)
		}
		cmp, ok := NumCmp(v, k)
		if !ok {
			return Unknown
		}
		switch c.Op {
		case "gt", "positive":
			return boolOut(cmp > 0)
		case "gte":
			return boolOut(cmp >= 0)
		case "lt", "negative":
			return boolOut(cmp < 0)
		default:
			return boolOut(cmp <= 0)
		}
	case "len", "lengt", "lengte", "lenlt", "lenlte":
		// "Works with strings, bytes, and arrays."  Other types: not documented.
		var lens []int
		switch v.K {
		case VStr:
			// The unit (bytes or characters) is not documented.
			lens = []int{len(v.S), utf8.RuneCountInString(v.S)}
		case VBytes:
			lens = []int{len(v.B)}
		case VArr:
			lens = []int{len(v.Elems)}
		default:
			return Unknown
		}
		var res Out
		for _, l := range lens {
			var ok bool
			switch c.Op {
			case "len":
				ok = l == c.N
			case "lengt":
				ok = l > c.N
			case "lengte":
				ok = l >= c.N
			case "lenlt":
				ok = l < c.N
			case "lenlte":
				ok = l <= c.N
			}
			res |= boolOut(ok)
		}
		return res
	case "regexp":
		if v.K != VStr {
			return Unknown // "checks if a string input matches": other types undocumented
		}
		// "match the supplied pattern": whole-string or somewhere-in-string is
		// not spelled out; judge only where both readings agree.
		return boolOut(c.Pat.Search(v.S)) | boolOut(c.Pat.Full(v.S))
	case "is-true":
		if v.K == VStr && v.S == "true" {
			return Accept | FailedConstraint // not judged, see BoolString
		}
		return boolOut(v.K == VSym && v.S == "true")
	case "is-false":
		if v.K == VStr && v.S == "false" {
			return Accept | FailedConstraint // not judged, see BoolString
		}
		return boolOut(v.K == VSym && v.S == "false")
	case "is-truthy":
		switch Truthy(v) {
		case 1:
			return Accept
		case 0:
			return FailedConstraint
		}
		return Accept | FailedConstraint
	case "is-falsy":
		switch Truthy(v) {
		case 1:
			return FailedConstraint
		case 0:
			return Accept
		}
		return Accept | FailedConstraint
	case "not":
		var in Out
		if c.NotV != nil {
			in = EvalSchema(c.NotV, v)
		} else {
			in = EvalCons(c.Inner[0], v)
		}
		switch {
		case in == Accept:
			return FailedConstraint
		case in&Accept == 0:
			return Accept
		}
		return Accept | FailedConstraint
	case "of":
		if v.K != VArr {
			return Unknown // "a constraint for arrays": other inputs undocumented
		}
		outs := make([]Out, len(v.Elems))
		for i, e := range v.Elems {
			outs[i] = evalRefsAny(c.Refs, e)
		}
		return widen(conj(outs))
	case "has-key":
		if v.K != VMap {
			return Reject // "Requires a map to have the key": a non-map does not have it
		}
		val, ok := v.Get(c.Key)
		if !ok {
			return Reject
		}
		return widen(evalRefsAny(c.Refs, val))
	case "may-have-key":
		if v.K != VMap {
			return Unknown
		}
		val, ok := v.Get(c.Key)
		if !ok {
			return Accept
		}
		return widen(evalRefsAny(c.Refs, val))
	case "no-other-keys":
		if v.K != VMap {
			return Unknown
		}
		declared := map[string]bool{}
		outs := make([]Out, 0, len(c.Inner)+1)
		for _, i := range c.Inner {
			declared[i.Key] = true
			outs = append(outs, EvalCons(i, v))
		}
		for _, e := range v.Entries {
			if !declared[e.Key] {
				outs = append(outs, Reject)
				break
			}
		}
		return widen(conj(outs))
	case "when":
		if v.K != VMap {
			return Unknown
		}
		gv, ok := v.Get(c.Key)
		if !ok {
			return Unknown // behaviour with the guarded field absent is not documented
		}
		g := EvalRef(c.Refs[0], gv)
		if g&Accept == 0 {
			return Accept // "If the condition is not met, the constraint passes."
		}
		var body Out
		tv, ok := v.Get(c.Key2)
		if !ok {
			body = Unknown
		} else {
			outs := make([]Out, len(c.Refs)-1)
			for i, r := range c.Refs[1:] {
				outs[i] = EvalRef(r, tv)
			}
			body = widen(conj(outs))
		}
		if g == Accept {
			return body
		}
		return body | Accept
	}
	return Unknown
}
