package c14x

// LARGE declarations (round 10).
//
// The ordinary generator keeps every declaration small: 1-4 allowed values in
// an s:in, at most 4 keys under s:no-other-keys, 1-3 alternative types in
// s:of / s:has-key, at most 4 constraints on a validator, lengths up to 6,
// arrays of at most 8 elements.  The property quantifies over "all schemas
// composed from the constraint constructors"; how MANY values / keys /
// alternatives / constraints / elements a declaration lists is a dimension of
// that space, and it is the one along which an implementation changes its
// strategy (linear scan below a threshold, an index / a sorted table / a
// pre-sized set above it).  With Gen.Size > 0 the generator builds one
// declaration of the named family whose size is drawn from 5..Size with half
// of the draws next to a power of two or a round decimal number, and aims the
// values at every position of it.  Nothing here is used when Size is 0.

import (
	"fmt"
	"strings"

	"verifharness/fw"
)

// SizedFamilies names the kinds of large declaration SizedSchema builds.
var SizedFamilies = []string{"in", "keys", "alternatives", "length", "constraints"}

// SizedInfo says what SizedSchema built.
type SizedInfo struct {
	Family    string
	Placement string // where the large declaration sits relative to the top validator
	Flavour   string // what its members look like
	N         int    // its size
	Focus     *Cons  // the large constraint (nil for "constraints")
}

// SizeBucket is the size class used in coverage keys and evidence.
func SizeBucket(n int) string {
	switch {
	case n <= 4:
		return "1-4"
	case n <= 7:
		return "5-7"
	case n <= 15:
		return "8-15"
	case n <= 31:
		return "16-31"
	case n <= 63:
		return "32-63"
	case n <= 127:
		return "64-127"
	}
	return "128+"
}

// sizedN draws a size in lo..max; half of the draws sit at, just below or just
// above a power of two or a round decimal number (where thresholds live).
func (g *Gen) sizedN(lo, max int) int {
	if max < lo {
		max = lo
	}
	if g.R.Chance(1, 2) {
		var ps []int
		for p := 4; p <= max+1; p *= 2 {
			ps = append(ps, p)
		}
		for _, p := range []int{10, 20, 50, 100, 200} {
			if p <= max+1 {
				ps = append(ps, p)
			}
		}
		if len(ps) > 0 {
			n := fw.Pick(g.R, ps) + g.R.Range(-1, 1)
			if n < lo {
				n = lo
			}
			if n > max {
				n = max
			}
			return n
		}
	}
	return g.R.Range(lo, max)
}

// ---------------------------------------------------------------------------
// enumerations

func (g *Gen) numEnum(n int) ([]*Value, string) {
	var out []*Value
	switch g.R.Intn(5) {
	case 0:
		start := fw.Pick(g.R, []int64{1, 0, 1, int64(-n / 2), 10, 100, 1<<53 - 2})
		for i := 0; i < n; i++ {
			out = append(out, Int(start+int64(i)))
		}
		return out, "consecutive-ints"
	case 1:
		step := fw.Pick(g.R, []int64{2, 5, 10, 100})
		start := fw.Pick(g.R, []int64{0, 5, -50})
		for i := 0; i < n; i++ {
			out = append(out, Int(start+step*int64(i)))
		}
		return out, "stepped-ints"
	case 2:
		seen := map[int64]bool{}
		for len(out) < n {
			x := int64(g.R.Range(-2*n, 2*n))
			if !seen[x] {
				seen[x] = true
				out = append(out, Int(x))
			}
		}
		return out, "scattered-ints"
	case 3:
		start := float64(fw.Pick(g.R, []int64{0, 1, -3, 10}))
		for i := 0; i < n; i++ {
			out = append(out, Float(start+0.5*float64(i)))
		}
		return out, "half-stepped-floats"
	}
	if n > 62 {
		n = 62
	}
	for i := 0; i < n; i++ {
		out = append(out, Int(int64(1)<<uint(i)))
	}
	return out, "powers-of-two"
}

func (g *Gen) codeEnum(n int) ([]*Value, string) {
	var out []*Value
	switch g.R.Intn(5) {
	case 0:
		seen := map[string]bool{}
		for len(out) < n {
			s := string([]byte{byte('A' + g.R.Intn(26)), byte('A' + g.R.Intn(26))})
			if !seen[s] {
				seen[s] = true
				out = append(out, Str(s))
			}
		}
		return out, "two-letter-codes"
	case 1:
		pfx := fw.Pick(g.R, []string{"item-", "s", "status-", ""})
		for i := 0; i < n; i++ {
			out = append(out, Str(fmt.Sprintf("%s%d", pfx, i+1)))
		}
		if pfx == "" {
			return out, "number-texts"
		}
		return out, "numbered-names"
	case 2:
		start := fw.Pick(g.R, []int{100, 0, 1, 990})
		for i := 0; i < n; i++ {
			out = append(out, Str(fmt.Sprintf("%d", start+i)))
		}
		return out, "number-texts"
	case 3:
		for i := 0; i < n; i++ {
			out = append(out, Str(strings.Repeat("a", i)+"b"))
		}
		return out, "nested-prefixes"
	}
	pool := append([]string(nil), strPool...)
	fw.Shuffle(g.R, pool)
	for i := 0; i < n; i++ {
		if i < len(pool) {
			out = append(out, Str(pool[i]))
		} else {
			out = append(out, Str(fmt.Sprintf("w%d", i)))
		}
	}
	return out, "pool-strings"
}

// bigIn builds an enumeration of n allowed values for a slot of type hint.
func (g *Gen) bigIn(hint string, n int) (*Cons, string) {
	c := &Cons{Op: "in", EqRef: g.EqRef, OnKin: g.OnKin}
	var vals []*Value
	var flavour string
	switch hint {
	case "int", "float", "number":
		vals, flavour = g.numEnum(n)
	case "string":
		vals, flavour = g.codeEnum(n)
	default:
		k := g.R.Range(1, n-1)
		a, fa := g.numEnum(k)
		b, fb := g.codeEnum(n - len(a))
		vals, flavour = append(a, b...), fa+"+"+fb
	}
	// members of another kind among them: the same number as a float / an int,
	// the text of the number, the same spelling as a symbol / bytes, and (where
	// nothing screens the input) values of every other kind
	for i, v := range vals {
		switch {
		case v.K == VInt && g.R.Chance(1, 8):
			if f := float64(v.I); int64(f) == v.I {
				vals[i] = Float(f)
			}
		case v.K == VFloat && v.F == float64(int64(v.F)) && g.R.Chance(1, 4):
			vals[i] = Int(int64(v.F))
		case v.IsNum() && g.R.Chance(1, 16):
			vals[i] = Str(numText(v))
		case v.K == VStr && quotableSymbol(v.S) && g.R.Chance(1, 10):
			vals[i] = Sym(v.S)
		case v.K == VStr && g.R.Chance(1, 16):
			vals[i] = Bytes(v.S)
		case hint != "int" && hint != "float" && hint != "number" && hint != "string" && g.R.Chance(1, 8):
			vals[i] = g.inMember("any")
		}
	}
	if g.R.Bool() {
		fw.Shuffle(g.R, vals)
		flavour += ":shuffled"
	}
	if g.R.Chance(1, 8) {
		// a member listed twice
		i, j := g.R.Intn(len(vals)), g.R.Intn(len(vals))
		vals[j] = vals[i]
	}
	c.Vals = vals
	return c, flavour
}

// ---------------------------------------------------------------------------
// key sets

var fieldNames = []string{"first-name", "last-name", "email", "city", "zip", "country", "phone", "age", "status", "created", "updated", "id", "name", "a", "b", "c", "street", "state", "title", "notes", "owner", "kind", "amount", "currency"}

func (g *Gen) bigKeyNames(n int) ([]string, string) {
	var out []string
	flavour := ""
	switch g.R.Intn(4) {
	case 0:
		for i := 0; i < n; i++ {
			out = append(out, fmt.Sprintf("f%02d", i+1))
		}
		flavour = "numbered-fields"
	case 1:
		pool := append([]string(nil), fieldNames...)
		fw.Shuffle(g.R, pool)
		for i := 0; i < n; i++ {
			if i < len(pool) {
				out = append(out, pool[i])
			} else {
				out = append(out, fmt.Sprintf("extra%d", i))
			}
		}
		flavour = "field-names"
	case 2:
		for i := 0; i < n; i++ {
			out = append(out, "k"+strings.Repeat("k", i))
		}
		flavour = "nested-prefixes"
	default:
		out = append(out, keyPool...)
		for i := len(out); i < n; i++ {
			out = append(out, fmt.Sprintf("key%d", i))
		}
		out = out[:n]
		flavour = "pool+numbered"
	}
	fw.Shuffle(g.R, out)
	return out, flavour
}

var keyTypes = []string{"int", "float", "number", "string", "bool", "any", "array", "sorted-map", "string", "int"}

func (g *Gen) bigKeyCons(n int) ([]*Cons, string) {
	names, flavour := g.bigKeyNames(n)
	var out []*Cons
	for _, k := range names {
		c := &Cons{Op: "has-key", Key: k}
		if g.R.Chance(2, 5) {
			c.Op = "may-have-key"
		}
		for i, m := 0, g.weighted(30, 55, 15); i < m; i++ {
			c.Refs = append(c.Refs, &Ref{Kind: RType, Type: fw.Pick(g.R, keyTypes), AsString: g.R.Chance(1, 4)})
		}
		out = append(out, c)
	}
	return out, flavour
}

// ---------------------------------------------------------------------------
// alternatives

func (g *Gen) bigAlts(n int) ([]*Ref, string) {
	// a few kinds of value, listed again and again in different guises (type
	// name, type string, a validator of that type with one constraint)
	kinds := append([]string(nil), "int", "float", "number", "string", "array", "sorted-map", "bool", "fun")
	fw.Shuffle(g.R, kinds)
	kinds = kinds[:g.R.Range(2, 4)]
	if g.R.Chance(1, 10) {
		kinds = append(kinds, "any")
	}
	var out []*Ref
	nv := 0
	for i := 0; i < n; i++ {
		t := fw.Pick(g.R, kinds)
		if t != "fun" && t != "any" && nv < 24 && g.R.Bool() {
			nv++
			v := &Schema{Via: g.weighted(60, 40), Type: t, AsString: g.R.Chance(1, 4)}
			v.Cons = []*Cons{g.Cons(t, 2)}
			v.Name = g.name()
			g.Defs = append(g.Defs, v)
			out = append(out, &Ref{Kind: RValidator, V: v, Quoted: g.R.Bool()})
			continue
		}
		out = append(out, &Ref{Kind: RType, Type: t, AsString: g.R.Chance(1, 4)})
	}
	return out, fmt.Sprintf("%d-kinds", len(kinds))
}

// ---------------------------------------------------------------------------

func (g *Gen) via() int { return g.weighted(60, 40) }

func (g *Gen) newSchema(t string, cons ...*Cons) *Schema {
	s := &Schema{Via: g.via(), Type: t, AsString: g.R.Chance(1, 4), Cons: cons}
	s.Name = g.name()
	g.Defs = append(g.Defs, s)
	return s
}

// around puts the large constraint among 0-2 ordinary ones (its position in
// the constraint list varies).
func (g *Gen) around(t string, c *Cons) []*Cons {
	cons := []*Cons{c}
	for i, m := 0, g.weighted(50, 35, 15); i < m; i++ {
		k := g.Cons(t, 2)
		if g.R.Bool() {
			cons = append([]*Cons{k}, cons...)
		} else {
			cons = append(cons, k)
		}
	}
	return cons
}

// place builds the top validator around a large constraint c that talks about
// values of type t.
func (g *Gen) place(t string, c *Cons, placements []string) (*Schema, string) {
	p := fw.Pick(g.R, placements)
	switch p {
	case "not":
		return g.newSchema(t, g.around(t, &Cons{Op: "not", Inner: []*Cons{c}})...), p
	case "not-validator":
		inner := g.newSchema(t, c)
		return g.newSchema("any", &Cons{Op: "not", NotV: inner}), p
	case "has-key", "may-have-key":
		inner := g.newSchema(t, c)
		k := &Cons{Op: p, Key: fw.Pick(g.R, keyPool), Refs: []*Ref{{Kind: RValidator, V: inner, Quoted: g.R.Bool()}}}
		return g.newSchema("sorted-map", g.around("sorted-map", k)...), p
	case "of":
		inner := g.newSchema(t, c)
		k := &Cons{Op: "of", Refs: []*Ref{{Kind: RValidator, V: inner, Quoted: g.R.Bool()}}}
		return g.newSchema("array", k), p
	case "when-guard":
		k := &Cons{Op: "when", Key: "a", Key2: "b", Refs: []*Ref{{Kind: RCons, C: c}, g.CondRef(2)}}
		return g.newSchema("sorted-map", k), p
	case "when-condition":
		k := &Cons{Op: "when", Key: "a", Key2: "b", Refs: []*Ref{g.CondRef(2), {Kind: RCons, C: c}}}
		return g.newSchema("sorted-map", k), p
	}
	return g.newSchema(t, g.around(t, c)...), "direct"
}

// SizedSchema builds a top validator holding one large declaration of the
// family.  g.Size must be > 0.
func (g *Gen) SizedSchema(fam string) (*Schema, *SizedInfo) {
	info := &SizedInfo{Family: fam}
	var top *Schema
	switch fam {
	case "in":
		hint := fw.Pick(g.R, []string{"int", "float", "number", "number", "string", "string", "any", "any"})
		info.N = g.sizedN(5, g.Size)
		info.Focus, info.Flavour = g.bigIn(hint, info.N)
		info.N = len(info.Focus.Vals)
		info.Flavour = hint + ":" + info.Flavour
		top, info.Placement = g.place(hint, info.Focus, []string{"direct", "direct", "direct", "not", "not-validator", "has-key", "has-key", "may-have-key", "of", "when-guard", "when-condition"})
	case "keys":
		max := g.Size / 2
		info.N = g.sizedN(5, max)
		kcs, fl := g.bigKeyCons(info.N)
		info.Flavour = fl
		var cons []*Cons
		switch g.R.Intn(3) {
		case 0:
			info.Focus = &Cons{Op: "no-other-keys", Inner: kcs}
			cons = []*Cons{info.Focus}
			info.Flavour += ":under-no-other-keys"
		case 1:
			cons = kcs
			info.Flavour += ":top-level-key-constraints"
		default:
			bare := make([]*Cons, len(kcs))
			for i, k := range kcs {
				bare[i] = &Cons{Op: k.Op, Key: k.Key}
			}
			info.Focus = &Cons{Op: "no-other-keys", Inner: bare}
			cons = append(append([]*Cons{}, kcs...), info.Focus)
			info.Flavour += ":both"
		}
		rec := g.newSchema("sorted-map", cons...)
		switch g.R.Intn(4) {
		case 0:
			top = g.newSchema("array", &Cons{Op: "of", Refs: []*Ref{{Kind: RValidator, V: rec, Quoted: g.R.Bool()}}})
			info.Placement = "of"
		case 1:
			top = g.newSchema("sorted-map", &Cons{Op: "has-key", Key: fw.Pick(g.R, keyPool), Refs: []*Ref{{Kind: RValidator, V: rec, Quoted: g.R.Bool()}}})
			info.Placement = "has-key"
		default:
			top, info.Placement = rec, "direct"
		}
	case "alternatives":
		info.N = g.sizedN(4, g.Size/2)
		refs, fl := g.bigAlts(info.N)
		info.Flavour = fl
		switch g.R.Intn(3) {
		case 0:
			info.Focus = &Cons{Op: "has-key", Key: fw.Pick(g.R, keyPool), Refs: refs}
			top, info.Placement = g.newSchema("sorted-map", g.around("sorted-map", info.Focus)...), "has-key"
		case 1:
			info.Focus = &Cons{Op: "may-have-key", Key: fw.Pick(g.R, keyPool), Refs: refs}
			top, info.Placement = g.newSchema("sorted-map", g.around("sorted-map", info.Focus)...), "may-have-key"
		default:
			info.Focus = &Cons{Op: "of", Refs: refs}
			top, info.Placement = g.newSchema("array", g.around("array", info.Focus)...), "of"
		}
	case "length":
		t := fw.Pick(g.R, []string{"string", "string", "array", "array", "bytes"})
		info.N = g.sizedN(7, g.Size)
		op := fw.Pick(g.R, []string{"len", "lengt", "lengte", "lenlt", "lenlte"})
		info.Focus = &Cons{Op: op, N: info.N}
		info.Flavour = t + ":" + op
		cons := []*Cons{info.Focus}
		if g.R.Chance(1, 3) {
			n2 := info.N + g.R.Range(-2, 2)
			cons = append(cons, &Cons{Op: fw.Pick(g.R, []string{"lengte", "lenlte", "lengt", "lenlt"}), N: n2})
		}
		if t == "array" && g.R.Bool() {
			// long arrays whose elements are judged one by one
			cons = append(cons, &Cons{Op: "of", Refs: []*Ref{{Kind: RType, Type: fw.Pick(g.R, []string{"int", "string", "number"})}}})
			info.Flavour += "+of"
		}
		top, info.Placement = g.newSchema(t, cons...), "direct"
		if g.R.Chance(1, 4) {
			top = g.newSchema("sorted-map", &Cons{Op: "has-key", Key: fw.Pick(g.R, keyPool), Refs: []*Ref{{Kind: RValidator, V: top}}})
			info.Placement = "has-key"
		}
	default: // "constraints": many constraints on one validator, all of which one witness value satisfies
		t := fw.Pick(g.R, []string{"int", "number", "float", "string", "array", "sorted-map"})
		max := g.Size / 4
		if max > 24 {
			max = 24
		}
		want := g.sizedN(5, max)
		save := g.Size
		g.Size = 0
		var wit *Value
		var cons []*Cons
		for try := 0; try < 6 && len(cons) < 5; try++ {
			wit = g.typed(t, nil, 0)
			cons = cons[:0]
			for i := 0; i < 12*want && len(cons) < want; i++ {
				k := g.Cons(t, 2)
				if EvalCons(k, wit) == Accept {
					cons = append(cons, k)
				}
			}
		}
		g.Size = save
		g.Witness = wit
		info.N = len(cons)
		info.Flavour = t
		top, info.Placement = g.newSchema(t, cons...), "direct"
	}
	return top, info
}

// nearMiss: a string one edit away from s.
func (g *Gen) nearMiss(s string) string {
	switch g.R.Intn(4) {
	case 0:
		if r := []rune(s); len(r) > 0 {
			return string(r[:len(r)-1])
		}
	case 1:
		return s + string("abz0"[g.R.Intn(4)])
	case 2:
		if s != strings.ToLower(s) {
			return strings.ToLower(s)
		}
		return strings.ToUpper(s)
	}
	return " " + s
}
