package c14x

import (
	"fmt"
	"math"

	"verifharness/fw"
)

// Gen generates schema programs and values aimed at them.
type Gen struct {
	R      *fw.RNG
	Prefix string
	Defs   []*Schema // in definition order (dependencies first)
	// AvoidTypes lists type names not to use as top-level types.
	AvoidTypes map[string]bool
	// EqRef is handed to every s:in constraint generated (see EqualRef).
	EqRef EqualRef
	OnKin func(kin string, verdict int)
	// Size > 0: the large-declaration workload (sized.go).  It is the largest
	// size a declaration may have; the value generator then aims at every
	// position of a large declaration (any member of an enumeration, complete
	// records, long arrays and strings).  0 = the ordinary workload, whose
	// random stream none of the Size branches touches.
	Size int
	// Witness (Size > 0 only): a value known to satisfy every constraint of
	// the top validator; handed out now and then by typed().
	Witness *Value
	n       int
}

// Typedef names the prelude defines: (deftype c14tag (x) x) (deftype c14tagb (x) x)
const (
	TagA = "c14tag"
	TagB = "c14tagb"
)

var keyPool = []string{"a", "b", "c", "name", "id"}

// KeyPool is the pool of key names shared by schemas and values.
func KeyPool() []string { return keyPool }

var strPool = []string{"", "a", "b", "ab", "abc", "abcd", "abcde", "hello", "true", "false", "Mr", "Mrs", "x y", "é", "日本", "12", "2020-04-31", "A1", "abcdefg"}

var smallInts = []int64{0, 1, -1, 2, 3, 4, 5, 6, 10, 18, 91, 100, -5, -100}
var bigInts = []int64{1 << 53, 1<<53 + 1, 1<<53 - 1, -(1 << 53), -(1 << 53) - 1, 1<<53 + 2, 1 << 62, 1<<62 + 1, 1000000000000000, math.MaxInt64 - 1, 1<<60 + 1}
var smallFloats = []float64{0.5, -0.5, 2.5, 4.0, 0.0, 100.0, 17.75, -3.25, 0.001}
var bigFloats = []float64{9007199254740992.0, 9007199254740994.0, 1e18, -1e18, 1e10, 4611686018427387904.0, -9007199254740992.0}

func (g *Gen) name() string {
	g.n++
	return fmt.Sprintf("%s%d", g.Prefix, g.n)
}

func (g *Gen) weighted(ws ...int) int {
	t := 0
	for _, w := range ws {
		t += w
	}
	x := g.R.Intn(t)
	for i, w := range ws {
		if x < w {
			return i
		}
		x -= w
	}
	return len(ws) - 1
}

func (g *Gen) numConst() *Value {
	switch g.weighted(50, 22, 18, 10) {
	case 0:
		return Int(fw.Pick(g.R, smallInts))
	case 1:
		return Int(fw.Pick(g.R, bigInts))
	case 2:
		return Float(fw.Pick(g.R, smallFloats))
	}
	return Float(fw.Pick(g.R, bigFloats))
}

// ---------------------------------------------------------------------------
// schemas

var typeWeights = []struct {
	t string
	w int
}{{"int", 14}, {"float", 7}, {"number", 10}, {"string", 14}, {"array", 11}, {"sorted-map", 20}, {"bool", 7}, {"any", 8}, {"fun", 2}, {"tagged-value", 4}, {"bytes", 2}, {"error", 1}}

func (g *Gen) pickType() string {
	ws := make([]int, len(typeWeights))
	for i, tw := range typeWeights {
		ws[i] = tw.w
	}
	for {
		t := typeWeights[g.weighted(ws...)].t
		if !g.AvoidTypes[t] {
			return t
		}
	}
}

var simpleTypes = []string{"int", "float", "number", "string", "array", "sorted-map", "bool", "any", "fun"}

var menus = map[string][]string{
	"int":        {"gt", "gte", "lt", "lte", "positive", "negative", "in", "not", "is-truthy", "is-falsy"},
	"string":     {"in", "len", "lengt", "lengte", "lenlt", "lenlte", "regexp", "regexp", "not", "is-truthy", "is-falsy"},
	"bytes":      {"len", "lengt", "lenlte", "not", "is-truthy", "is-falsy"},
	"array":      {"len", "lengt", "lengte", "lenlt", "lenlte", "of", "of", "not", "is-truthy", "is-falsy"},
	"sorted-map": {"has-key", "has-key", "may-have-key", "may-have-key", "no-other-keys", "when", "when", "not", "is-truthy", "is-falsy"},
	"bool":       {"is-true", "is-false", "is-truthy", "is-falsy", "in", "not"},
	"fun":        {"not", "is-truthy"},
}

var allOps = []string{"in", "gt", "gte", "lt", "lte", "positive", "negative", "len", "lengt", "lengte", "lenlt", "lenlte",
	"of", "has-key", "may-have-key", "no-other-keys", "when", "not", "is-true", "is-false", "is-truthy", "is-falsy", "regexp"}

// anyOps: behind s:any nothing screens the input, which is where an enum meets
// values of every kind; s:in (bare and inverted) gets a larger share there.
var anyOps = append(append([]string{}, allOps...), "in", "in", "in", "not")

func menuFor(t string) []string {
	switch t {
	case "float", "number":
		return menus["int"]
	case "any", "":
		return anyOps
	}
	if m, ok := menus[t]; ok {
		return m
	}
	return allOps
}

// Schema generates a validator definition (and, recursively, the validators it
// refers to), appends it to g.Defs and returns it.
func (g *Gen) Schema(depth int) *Schema {
	s := &Schema{}
	switch g.weighted(55, 35, 10) {
	case 0:
		s.Via = ViaDeftype
	case 1:
		s.Via = ViaMake
	case 2:
		s.Via = ViaTypedef
	}
	var hint string
	if s.Via == ViaTypedef {
		s.Typedef = TagA
		s.Type = "tagged-value"
		s.Sub = fw.Pick(g.R, []string{"string", "int", "number", "any", "sorted-map", "array", "string"})
		s.SubAsStr = g.R.Chance(1, 4)
		hint = s.Sub
	} else {
		s.Type = g.pickType()
		if depth > 0 && !g.AvoidTypes["any"] && g.R.Chance(1, 6) {
			// a validator used as an allowed type / guard / under s:not: more often
			// one that lets every kind of value through to its constraints
			s.Type = "any"
		}
		s.AsString = g.R.Chance(1, 4)
		hint = s.Type
		if s.Type == "tagged-value" {
			if g.R.Chance(3, 5) {
				s.Sub = fw.Pick(g.R, []string{"string", "int", "number", "any", "sorted-map"})
				s.SubAsStr = g.R.Chance(1, 4)
				hint = s.Sub
			} else {
				hint = "none"
			}
		}
	}
	n := g.weighted(14, 34, 26, 16, 10)
	if hint == "none" || hint == "error" {
		n = 0
	}
	if hint == "fun" && n > 1 {
		n = 1
	}
	for i := 0; i < n; i++ {
		s.Cons = append(s.Cons, g.Cons(hint, depth))
	}
	s.Name = g.name()
	g.Defs = append(g.Defs, s)
	return s
}

// Cons generates one constraint suited (mostly) to values of type hint.
func (g *Gen) Cons(hint string, depth int) *Cons {
	menu := menuFor(hint)
	if g.R.Chance(1, 8) {
		menu = allOps
	}
	return g.consOp(fw.Pick(g.R, menu), hint, depth)
}

func (g *Gen) inVals(hint string) []*Value {
	n := g.R.Range(1, 4)
	var out []*Value
	for i := 0; i < n; i++ {
		switch hint {
		case "int", "float", "number":
			out = append(out, g.numConst())
		case "string":
			out = append(out, Str(fw.Pick(g.R, strPool)))
		case "bool":
			out = append(out, Sym(fw.Pick(g.R, []string{"true", "false"})))
		default:
			switch g.R.Intn(4) {
			case 0:
				out = append(out, g.numConst())
			case 1:
				out = append(out, Str(fw.Pick(g.R, strPool)))
			case 2:
				out = append(out, Sym(fw.Pick(g.R, []string{"true", "false", "foo"})))
			default:
				out = append(out, Int(fw.Pick(g.R, smallInts)))
			}
		}
		// Slots with no base type in front of the enum (s:any, s:when guards and
		// conditions, validators used as allowed types) see values of every kind,
		// so the enum holds members of every kind too: names as symbols, bytes,
		// nil, lists, arrays, maps, tagged values.  "bool" stays as it is (the
		// strings "true"/"false" against the symbols are covered from the string
		// side).
		if hint != "bool" && g.R.Chance(1, 3) {
			out[len(out)-1] = g.inMember(hint)
		}
	}
	return out
}

// inMember: an allowed value outside the usual numbers-and-strings.
func (g *Gen) inMember(hint string) *Value {
	name := func() string {
		for {
			if s := fw.Pick(g.R, strPool); quotableSymbol(s) {
				return s
			}
		}
	}
	small := func() *Value {
		switch g.R.Intn(5) {
		case 0:
			return Int(fw.Pick(g.R, smallInts))
		case 1:
			return Float(fw.Pick(g.R, []float64{4.0, 100.0, 0.0, 2.5}))
		case 2:
			return Str(fw.Pick(g.R, strPool))
		case 3:
			return Sym(name())
		}
		return Nil()
	}
	switch hint {
	case "int", "float", "number":
		// a numeric enum: the text of a number, or the number in the other kind
		if g.R.Bool() {
			return Str(numText(g.numConst()))
		}
		return Float(float64(fw.Pick(g.R, smallInts)))
	case "string":
		if g.R.Chance(2, 3) {
			return Sym(name())
		}
		return Bytes(fw.Pick(g.R, []string{"", "a", "abc", "false", "ab"}))
	}
	switch g.R.Intn(9) {
	case 8:
		// the empty value of some kind (nil and the empty string / array / map /
		// bytes are five different values)
		return fw.Pick(g.R, []*Value{Nil(), Str(""), {K: VArr, Elems: []*Value{}}, {K: VMap, Entries: []Entry{}}, Bytes("")})
	case 0:
		return Sym(name())
	case 1:
		return Bytes(fw.Pick(g.R, []string{"", "a", "abc", "false", "ab"}))
	case 2:
		return Nil()
	case 3:
		n := g.R.Range(1, 3)
		l := &Value{K: VList}
		for i := 0; i < n; i++ {
			l.Elems = append(l.Elems, small())
		}
		return l
	case 4:
		n := g.R.Range(0, 3)
		a := &Value{K: VArr, Elems: []*Value{}}
		for i := 0; i < n; i++ {
			a.Elems = append(a.Elems, small())
		}
		return a
	case 5:
		n := g.R.Range(0, 2)
		m := &Value{K: VMap, Entries: []Entry{}}
		keys := append([]string(nil), keyPool...)
		fw.Shuffle(g.R, keys)
		for i := 0; i < n; i++ {
			m.Entries = append(m.Entries, Entry{Key: keys[i], Sym: g.R.Chance(2, 5), Val: small()})
		}
		return m
	case 6:
		return Tagged(fw.Pick(g.R, []string{TagA, TagB}), small())
	}
	return Str(numText(g.numConst()))
}

func (g *Gen) keyCons(op string, key string, depth int) *Cons {
	c := &Cons{Op: op, Key: key}
	n := g.weighted(22, 50, 20, 8)
	for i := 0; i < n; i++ {
		c.Refs = append(c.Refs, g.Ref(depth))
	}
	return c
}

func (g *Gen) consOp(op, hint string, depth int) *Cons {
	c := &Cons{Op: op}
	switch op {
	case "in":
		c.Vals = g.inVals(hint)
		c.EqRef = g.EqRef
		c.OnKin = g.OnKin
	case "gt", "gte", "lt", "lte":
		c.Num = g.numConst()
	case "len", "lengt", "lengte", "lenlt", "lenlte":
		c.N = g.weighted(3, 10, 12, 14, 14, 12, 8, 6) - 1
	case "regexp":
		c.Pat = g.Pattern()
	case "of":
		n := g.weighted(0, 60, 30, 10)
		for i := 0; i < n; i++ {
			c.Refs = append(c.Refs, g.Ref(depth))
		}
	case "has-key", "may-have-key":
		return g.keyCons(op, fw.Pick(g.R, keyPool), depth)
	case "no-other-keys":
		n := g.weighted(5, 25, 35, 25, 10)
		keys := append([]string(nil), keyPool...)
		fw.Shuffle(g.R, keys)
		for i := 0; i < n; i++ {
			kop := "has-key"
			if g.R.Bool() {
				kop = "may-have-key"
			}
			c.Inner = append(c.Inner, g.keyCons(kop, keys[i], depth))
		}
	case "when":
		c.Key = fw.Pick(g.R, keyPool)
		c.Key2 = fw.Pick(g.R, keyPool)
		c.Refs = append(c.Refs, g.CondRef(depth))
		n := g.weighted(0, 70, 30)
		for i := 0; i < n; i++ {
			c.Refs = append(c.Refs, g.CondRef(depth))
		}
	case "not":
		if depth < 2 && len(g.Defs) < 5 && g.R.Chance(3, 10) {
			c.NotV = g.validator(depth)
		} else {
			menu := menuFor(hint)
			var iop string
			for {
				iop = fw.Pick(g.R, menu)
				if iop != "not" || depth < 1 {
					break
				}
			}
			c.Inner = []*Cons{g.consOp(iop, hint, depth+1)}
		}
	}
	return c
}

func (g *Gen) validator(depth int) *Schema {
	if len(g.Defs) > 0 && g.R.Chance(2, 5) {
		return fw.Pick(g.R, g.Defs)
	}
	return g.Schema(depth + 1)
}

// Ref generates the content of a type slot of s:of / s:has-key / s:may-have-key:
// a type name or a validator (the two documented forms).
func (g *Gen) Ref(depth int) *Ref {
	if depth < 2 && len(g.Defs) < 5 && g.R.Chance(2, 5) {
		return &Ref{Kind: RValidator, V: g.validator(depth), Quoted: g.R.Bool()}
	}
	return &Ref{Kind: RType, Type: fw.Pick(g.R, simpleTypes), AsString: g.R.Chance(1, 4)}
}

var condOps = []string{"in", "in", "gt", "gte", "lt", "lte", "positive", "negative", "len", "lengt", "lenlt", "regexp", "is-true", "is-false", "is-truthy", "is-falsy", "not", "in", "is-true"}

// CondRef generates the content of a condition slot of s:when: a constraint, a
// type name or a validator.
func (g *Gen) CondRef(depth int) *Ref {
	switch g.weighted(50, 30, 20) {
	case 0:
		op := fw.Pick(g.R, condOps)
		hint := "any"
		switch op {
		case "gt", "gte", "lt", "lte", "positive", "negative":
			hint = "int"
		case "len", "lengt", "lenlt", "regexp":
			hint = "string"
		case "is-true", "is-false":
			hint = "bool"
		}
		if op == "in" {
			hint = fw.Pick(g.R, []string{"int", "string", "bool", "any"})
		}
		return &Ref{Kind: RCons, C: g.consOp(op, hint, depth+1)}
	case 1:
		return &Ref{Kind: RType, Type: fw.Pick(g.R, simpleTypes), AsString: g.R.Chance(1, 4)}
	}
	if depth < 2 && len(g.Defs) < 5 {
		return &Ref{Kind: RValidator, V: g.validator(depth), Quoted: g.R.Bool()}
	}
	return &Ref{Kind: RType, Type: fw.Pick(g.R, simpleTypes)}
}

// ---------------------------------------------------------------------------
// patterns

const reLits = "abcxyz019 -_.+"

func (g *Gen) reAtom() *Re {
	switch g.weighted(60, 10, 18, 12) {
	case 0:
		return &Re{Op: ReLit, R: rune(reLits[g.R.Intn(len(reLits))])}
	case 1:
		return &Re{Op: ReAny}
	case 2:
		re := &Re{Op: ReClass, Neg: g.R.Chance(1, 4)}
		n := g.R.Range(1, 2)
		for i := 0; i < n; i++ {
			switch g.R.Intn(3) {
			case 0:
				lo := rune('a' + g.R.Intn(20))
				re.Ranges = append(re.Ranges, [2]rune{lo, lo + rune(g.R.Intn(6))})
			case 1:
				lo := rune('0' + g.R.Intn(6))
				re.Ranges = append(re.Ranges, [2]rune{lo, lo + rune(g.R.Intn(4))})
			default:
				ch := rune("abcxyzAM"[g.R.Intn(8)])
				re.Ranges = append(re.Ranges, [2]rune{ch, ch})
			}
		}
		return re
	}
	return &Re{Op: ReDigit}
}

func (g *Gen) re(d int) *Re {
	if d >= 2 || g.R.Chance(2, 5) {
		return g.reAtom()
	}
	switch g.weighted(45, 20, 35) {
	case 0:
		re := &Re{Op: ReCat}
		n := g.R.Range(2, 4)
		for i := 0; i < n; i++ {
			re.Subs = append(re.Subs, g.re(d+1))
		}
		return re
	case 1:
		return &Re{Op: ReAlt, Subs: []*Re{g.re(d + 1), g.re(d + 1)}}
	}
	mm := fw.Pick(g.R, [][2]int{{0, -1}, {1, -1}, {0, 1}, {2, 2}, {1, 3}, {2, -1}})
	return &Re{Op: ReRep, Subs: []*Re{g.re(d + 1)}, Min: mm[0], Max: mm[1]}
}

// Pattern generates a pattern.
func (g *Gen) Pattern() *Pattern {
	p := &Pattern{Body: g.re(0)}
	switch g.weighted(65, 15, 10, 10) {
	case 0:
		p.Begin, p.End = true, true
	case 2:
		p.Begin = true
	case 3:
		p.End = true
	}
	return p
}

const sampleAlphabet = "abcxyz019 -_.+Aé"

func (g *Gen) sampleRe(re *Re, out *[]rune) {
	switch re.Op {
	case ReLit:
		*out = append(*out, re.R)
	case ReAny:
		*out = append(*out, fw.Pick(g.R, []rune(sampleAlphabet)))
	case ReDigit:
		*out = append(*out, rune('0'+g.R.Intn(10)))
	case ReClass:
		for try := 0; try < 40; try++ {
			var ch rune
			if !re.Neg && try < 20 {
				rg := fw.Pick(g.R, re.Ranges)
				ch = rg[0] + rune(g.R.Intn(int(rg[1]-rg[0])+1))
			} else {
				ch = fw.Pick(g.R, []rune(sampleAlphabet))
			}
			if re.inClass(ch) {
				*out = append(*out, ch)
				return
			}
		}
	case ReCat:
		for _, s := range re.Subs {
			g.sampleRe(s, out)
		}
	case ReAlt:
		g.sampleRe(fw.Pick(g.R, re.Subs), out)
	case ReRep:
		n := re.Min + g.R.Intn(3)
		if re.Max >= 0 && n > re.Max {
			n = re.Max
		}
		for i := 0; i < n; i++ {
			g.sampleRe(re.Subs[0], out)
		}
	}
}

// SampleString returns a string that usually matches p, or a one-edit
// neighbour of such a string.
func (g *Gen) SampleString(p *Pattern) string {
	var rs []rune
	g.sampleRe(p.Body, &rs)
	alpha := []rune(sampleAlphabet)
	switch g.R.Intn(6) {
	case 0:
		if len(rs) > 0 {
			i := g.R.Intn(len(rs))
			rs = append(rs[:i:i], rs[i+1:]...)
		}
	case 1:
		i := g.R.Intn(len(rs) + 1)
		rs = append(rs[:i:i], append([]rune{fw.Pick(g.R, alpha)}, rs[i:]...)...)
	case 2:
		if len(rs) > 0 {
			rs[g.R.Intn(len(rs))] = fw.Pick(g.R, alpha)
		}
	}
	return string(rs)
}

// ---------------------------------------------------------------------------
// values

func (g *Gen) neighbours(c *Value) []*Value {
	var out []*Value
	addInt := func(i int64) { out = append(out, Int(i)) }
	addF := func(f float64) {
		if !math.IsInf(f, 0) && !math.IsNaN(f) && !(f == 0 && math.Signbit(f)) {
			out = append(out, Float(f))
		}
	}
	switch c.K {
	case VInt:
		addInt(c.I)
		if c.I < math.MaxInt64-2 {
			addInt(c.I + 1)
			addInt(c.I + 2)
		}
		if c.I > math.MinInt64+3 {
			addInt(c.I - 1)
			addInt(c.I - 2)
		}
		f := float64(c.I)
		addF(f)
		addF(math.Nextafter(f, math.Inf(1)))
		addF(math.Nextafter(f, math.Inf(-1)))
		if math.Abs(f) < 1<<52 {
			addF(f + 0.5)
			addF(f - 0.5)
		}
	case VFloat:
		addF(c.F)
		addF(math.Nextafter(c.F, math.Inf(1)))
		addF(math.Nextafter(c.F, math.Inf(-1)))
		if math.Abs(c.F) < 1<<62 {
			fl := int64(math.Floor(c.F))
			addInt(fl)
			addInt(fl + 1)
			addInt(fl - 1)
			if math.Abs(c.F) >= 1<<52 {
				addInt(fl + 2)
				addInt(fl - 2)
			}
		}
	}
	return out
}

func (g *Gen) randNum() *Value {
	switch g.weighted(40, 15, 30, 15) {
	case 0:
		return Int(fw.Pick(g.R, smallInts))
	case 1:
		return Int(fw.Pick(g.R, bigInts))
	case 2:
		return Float(fw.Pick(g.R, smallFloats))
	}
	return Float(fw.Pick(g.R, bigFloats))
}

func coerceNum(v *Value, t string) *Value {
	switch t {
	case "int":
		if v.K == VFloat {
			if math.Abs(v.F) < 1<<62 {
				return Int(int64(math.Floor(v.F)))
			}
			return Int(1 << 62)
		}
	case "float":
		if v.K == VInt {
			return Float(float64(v.I))
		}
	}
	return v
}

// consts collects the numeric constants, lengths, allowed values and patterns
// of the constraints that talk about the value itself.
type hints struct {
	nums []*Value
	lens []int
	ins  []*Value
	pats []*Pattern
	ofs  []*Cons
	keys []*Cons // has-key, may-have-key, when (also those inside no-other-keys / not)
	notV []*Schema
}

func collect(cons []*Cons, h *hints) {
	for _, c := range cons {
		switch c.Op {
		case "gt", "gte", "lt", "lte":
			h.nums = append(h.nums, c.Num)
		case "positive", "negative":
			h.nums = append(h.nums, Int(0))
		case "len", "lengt", "lengte", "lenlt", "lenlte":
			h.lens = append(h.lens, c.N)
		case "in":
			h.ins = append(h.ins, c.Vals...)
		case "regexp":
			h.pats = append(h.pats, c.Pat)
		case "of":
			h.ofs = append(h.ofs, c)
		case "has-key", "may-have-key", "when":
			h.keys = append(h.keys, c)
		case "no-other-keys":
			collect(c.Inner, h)
		case "not":
			if c.NotV != nil {
				h.notV = append(h.notV, c.NotV)
				collect(c.NotV.Cons, h)
			} else {
				collect(c.Inner, h)
			}
		}
	}
}

func (g *Gen) wantLen(h *hints, max int) int {
	if len(h.lens) > 0 && g.R.Chance(4, 5) {
		n := fw.Pick(g.R, h.lens) + g.R.Range(-1, 1)
		if n < 0 {
			n = 0
		}
		return n
	}
	return g.R.Intn(max + 1)
}

func (g *Gen) strOfLen(n int) string {
	if n > 0 && g.R.Chance(1, 6) {
		// multibyte: n characters, more bytes
		rs := make([]rune, n)
		for i := range rs {
			rs[i] = fw.Pick(g.R, []rune("aébz日"))
		}
		return string(rs)
	}
	b := make([]byte, n)
	for i := range b {
		b[i] = "abcxyz01 "[g.R.Intn(9)]
	}
	return string(b)
}

// RandomValue returns a value of a random kind.
func (g *Gen) RandomValue(depth int) *Value {
	switch g.weighted(14, 10, 14, 5, 8, 4, 4, 12, 16, 5, 5) {
	case 0:
		return Int(fw.Pick(g.R, append(smallInts, bigInts...)))
	case 1:
		return Float(fw.Pick(g.R, append(smallFloats, bigFloats...)))
	case 2:
		return Str(fw.Pick(g.R, strPool))
	case 3:
		return Bytes(fw.Pick(g.R, []string{"", "a", "abc", "false"}))
	case 4:
		return Sym(fw.Pick(g.R, []string{"true", "false", "foo"}))
	case 5:
		return Nil()
	case 6:
		return List(Int(1), Str("a"))
	case 7:
		return g.typed("array", nil, depth+1)
	case 8:
		return g.typed("sorted-map", nil, depth+1)
	case 9:
		return g.typed("fun", nil, depth)
	}
	return g.typed("tagged-value", nil, depth+1)
}

func (g *Gen) scalar() *Value {
	switch g.R.Intn(5) {
	case 0:
		return Int(fw.Pick(g.R, smallInts))
	case 1:
		return Float(fw.Pick(g.R, smallFloats))
	case 2:
		return Str(fw.Pick(g.R, strPool))
	case 3:
		return Sym(fw.Pick(g.R, []string{"true", "false"}))
	}
	return Nil()
}

// ForSchema returns a value aimed at s: usually of its type and near the
// boundaries of its constraints, sometimes of another kind.
func (g *Gen) ForSchema(s *Schema, depth int) *Value {
	if g.R.Chance(1, 8) {
		return g.RandomValue(depth)
	}
	if s.Via == ViaTypedef {
		tag := TagA
		if g.R.Chance(1, 10) {
			tag = TagB
		}
		return Tagged(tag, g.typed(s.Sub, s.Cons, depth+1))
	}
	if s.Type == "tagged-value" {
		tag := fw.Pick(g.R, []string{TagA, TagB})
		if s.Sub == "" {
			return Tagged(tag, g.scalar())
		}
		return Tagged(tag, g.typed(s.Sub, s.Cons, depth+1))
	}
	return g.typed(s.Type, s.Cons, depth)
}

// ForRef returns a value aimed at the content of a type slot.
func (g *Gen) ForRef(r *Ref, depth int) *Value {
	switch r.Kind {
	case RType:
		return g.typed(r.Type, nil, depth)
	case RValidator:
		return g.ForSchema(r.V, depth)
	}
	return g.typed("any", []*Cons{r.C}, depth)
}

func (g *Gen) typed(t string, cons []*Cons, depth int) *Value {
	if depth > 4 {
		return g.scalar()
	}
	h := &hints{}
	collect(cons, h)
	if g.Size > 0 && g.Witness != nil && depth == 0 && g.R.Chance(1, 3) {
		return g.Witness
	}
	if t == "any" || t == "" {
		if g.Size > 0 && len(h.ins) > 0 && g.R.Chance(3, 4) {
			// any member of the enumeration, whatever its position, or its kin
			v := fw.Pick(g.R, h.ins)
			if g.R.Chance(1, 2) {
				if sibs := g.Siblings(v, 0); len(sibs) > 0 {
					return fw.Pick(g.R, sibs)
				}
			}
			return v
		}
		if len(h.notV) > 0 && g.R.Chance(3, 5) {
			return g.ForSchema(fw.Pick(g.R, h.notV), depth+1)
		}
		// choose the kind the constraints talk about
		var cands []string
		if len(h.nums) > 0 {
			cands = append(cands, "number")
		}
		if len(h.pats) > 0 {
			cands = append(cands, "string")
		}
		if len(h.lens) > 0 {
			cands = append(cands, "string", "array", "bytes")
		}
		if len(h.ofs) > 0 {
			cands = append(cands, "array")
		}
		if len(h.keys) > 0 {
			cands = append(cands, "sorted-map")
		}
		for _, v := range h.ins {
			if g.R.Chance(1, 2) {
				// the member itself, or (1 in 2) one of its kin: another kind of
				// value with the same spelling / number / members / emptiness
				if g.R.Chance(1, 2) {
					if sibs := g.Siblings(v, 0); len(sibs) > 0 {
						return fw.Pick(g.R, sibs)
					}
				}
				return v
			}
		}
		if len(cands) == 0 || g.R.Chance(1, 4) {
			return g.RandomValue(depth)
		}
		t = fw.Pick(g.R, cands)
	}
	switch t {
	case "int", "float", "number":
		var pool []*Value
		for _, c := range h.nums {
			pool = append(pool, g.neighbours(c)...)
		}
		for _, v := range h.ins {
			if v.IsNum() {
				pool = append(pool, v, v)
				pool = append(pool, g.neighbours(v)...)
			}
		}
		var v *Value
		if len(pool) > 0 && g.R.Chance(5, 6) {
			v = fw.Pick(g.R, pool)
		} else {
			v = g.randNum()
		}
		if g.R.Chance(9, 10) {
			v = coerceNum(v, t)
		}
		return v
	case "string":
		var pool []string
		for _, v := range h.ins {
			if v.K == VStr {
				pool = append(pool, v.S)
			}
		}
		for _, p := range h.pats {
			pool = append(pool, g.SampleString(p), g.SampleString(p))
		}
		if len(h.lens) > 0 {
			pool = append(pool, g.strOfLen(g.wantLen(h, 5)), g.strOfLen(g.wantLen(h, 5)))
		}
		if g.Size > 0 && len(pool) > 0 && g.R.Chance(1, 5) {
			return Str(g.nearMiss(fw.Pick(g.R, pool)))
		}
		if len(pool) > 0 && g.R.Chance(5, 6) {
			return Str(fw.Pick(g.R, pool))
		}
		return Str(fw.Pick(g.R, strPool))
	case "bytes":
		return Bytes(g.strOfLen(g.wantLen(h, 4)))
	case "bool":
		if g.R.Chance(1, 8) {
			return Str(fw.Pick(g.R, []string{"true", "false"}))
		}
		return Sym(fw.Pick(g.R, []string{"true", "false"}))
	case "fun":
		return Fun(fw.Pick(g.R, []string{"(lambda (x) x)", "car", "(lambda () 1)"}))
	case "array":
		n := g.wantLen(h, 4)
		odd := -2 // index of the one element not aimed at an alternative; -2: every element takes its chances
		if g.Size > 0 {
			if len(h.lens) == 0 && depth == 0 && g.R.Bool() {
				n = g.sizedN(5, g.Size)
			}
			if n > g.Size+2 {
				n = g.Size + 2
			}
			if n > 0 && g.R.Chance(3, 4) {
				// a long array survives element-by-element judgement only if every
				// element is aimed; one odd element at any position, or none
				odd = g.R.Range(-1, n-1)
			}
		} else if n > 8 {
			n = 8
		}
		a := &Value{K: VArr, Elems: []*Value{}}
		for i := 0; i < n; i++ {
			if len(h.ofs) > 0 && len(h.ofs[0].Refs) > 0 && (odd == -2 && g.R.Chance(9, 10) || odd > -2 && odd != i) {
				a.Elems = append(a.Elems, g.ForRef(fw.Pick(g.R, fw.Pick(g.R, h.ofs).Refs), depth+1))
			} else {
				a.Elems = append(a.Elems, g.scalar())
			}
		}
		return a
	case "sorted-map":
		m := &Value{K: VMap, Entries: []Entry{}}
		put := func(k string, v *Value) {
			if _, ok := m.Get(k); ok {
				return
			}
			m.Entries = append(m.Entries, Entry{Key: k, Sym: g.R.Chance(2, 5), Val: v})
		}
		// Size > 0, half of the maps: a complete record (every required key, aimed
		// values), less one key at any position (1 in 4)
		complete, dropped := g.Size > 0 && len(h.keys) > 0 && g.R.Bool(), -1
		if complete && g.R.Chance(1, 4) {
			dropped = g.R.Intn(len(h.keys))
		}
		for i, c := range h.keys {
			switch c.Op {
			case "has-key", "may-have-key":
				p := 6
				if c.Op == "has-key" {
					p = 9
				}
				if complete {
					if i == dropped {
						continue
					}
					if c.Op == "has-key" || g.R.Chance(6, 10) {
						if len(c.Refs) > 0 {
							put(c.Key, g.ForRef(fw.Pick(g.R, c.Refs), depth+1))
						} else {
							put(c.Key, g.scalar())
						}
					}
					continue
				}
				if g.R.Chance(p, 10) {
					if len(c.Refs) > 0 && g.R.Chance(5, 6) {
						put(c.Key, g.ForRef(fw.Pick(g.R, c.Refs), depth+1))
					} else {
						put(c.Key, g.RandomValue(depth+1))
					}
				}
			case "when":
				if g.R.Chance(9, 10) {
					put(c.Key, g.ForRef(c.Refs[0], depth+1))
				}
				if g.R.Chance(9, 10) {
					if len(c.Refs) > 1 {
						put(c.Key2, g.ForRef(fw.Pick(g.R, c.Refs[1:]), depth+1))
					} else {
						put(c.Key2, g.scalar())
					}
				}
			}
		}
		extra := 0
		if len(h.keys) == 0 {
			extra = g.R.Intn(4)
		} else if g.R.Chance(1, 4) {
			extra = 1
		}
		for i := 0; i < extra; i++ {
			k := fw.Pick(g.R, append([]string{"zz", "other-key"}, keyPool...))
			if g.R.Chance(1, 3) {
				put(k, g.RandomValue(depth+1))
			} else {
				put(k, g.scalar())
			}
		}
		return m
	case "tagged-value":
		return Tagged(fw.Pick(g.R, []string{TagA, TagB}), g.scalar())
	}
	return g.RandomValue(depth)
}

// Wrap builds a top validator that refers to d through the named constructor
// (used to put a malformed validator behind every kind of parent).
func (g *Gen) Wrap(d *Schema, through string) *Schema {
	ref := &Ref{Kind: RValidator, V: d, Quoted: through != "not" && g.R.Bool()}
	s := &Schema{Via: g.weighted(60, 40), Type: "sorted-map", AsString: g.R.Chance(1, 4)}
	var c *Cons
	switch through {
	case "not":
		s.Type = "any"
		c = &Cons{Op: "not", NotV: d}
	case "of":
		s.Type = "array"
		c = &Cons{Op: "of", Refs: []*Ref{ref}}
		if g.R.Chance(1, 3) {
			c.Refs = append(c.Refs, g.Ref(2))
		}
	case "has-key", "may-have-key":
		c = &Cons{Op: through, Key: fw.Pick(g.R, keyPool), Refs: []*Ref{ref}}
		if g.R.Chance(1, 3) {
			c.Refs = append(c.Refs, g.Ref(2))
		}
	case "no-other-keys":
		c = &Cons{Op: "no-other-keys", Inner: []*Cons{{Op: "has-key", Key: fw.Pick(g.R, keyPool), Refs: []*Ref{ref}}}}
	case "when-guard":
		c = &Cons{Op: "when", Key: "a", Key2: "b", Refs: []*Ref{ref, g.CondRef(2)}}
	case "when-condition":
		c = &Cons{Op: "when", Key: "a", Key2: "b", Refs: []*Ref{g.CondRef(2), ref}}
	}
	s.Cons = []*Cons{c}
	if g.R.Chance(1, 3) {
		s.Cons = append(s.Cons, g.Cons(s.Type, 2))
	}
	s.Name = g.name()
	g.Defs = append(g.Defs, s)
	return s
}

// Wrappers lists the constructors Wrap knows.
var Wrappers = []string{"not", "of", "has-key", "may-have-key", "no-other-keys", "when-guard", "when-condition"}
