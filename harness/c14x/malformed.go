package c14x

import (
	"fmt"
	"strings"

	"verifharness/fw"
)

// Malformed describes one way of making a schema program malformed.
type Malformed struct {
	Piece string // what is wrong (part of the finding key)
	Slot  string // where it sits (part of the finding key)
	// CondJudged: the rejection must carry the bad-arguments condition.  False
	// for argument-count mistakes, which the interpreter itself refuses before
	// libschema runs (the condition of that refusal is not libschema's to choose).
	CondJudged bool
	ConsText   string // raw constraint expression for a top-level constraint position
	TypeText   string // raw text for the type argument
	FormText   string // whole defining form, %s = validator name
	ValidateAs string // expression used as first argument of s:validate
}

var nonConstraints = []struct{ piece, text string }{
	{"lambda", "(lambda (x) x)"},
	{"lambda", "(lambda (x) ())"},
	{"lambda-no-args", "(lambda () ())"},
	{"builtin-function", "car"},
	{"builtin-function", "identity"},
	{"string", `"oops"`},
	{"int", "5"},
	{"unbound-symbol", "'c14nosuch"},
}

var ncSlots = []struct {
	slot   string
	tmpl   []string
	isType bool // a string here is read as a type name
}{
	{"toplevel-constraint", []string{"%s"}, false},
	{"not-inner", []string{"(s:not %s)"}, false},
	{"of-type", []string{"(s:of %s)", "(s:of s:int %s)"}, true},
	{"has-key-type", []string{`(s:has-key "a" %s)`, `(s:has-key "a" s:int %s)`}, true},
	{"may-have-key-type", []string{`(s:may-have-key "a" %s)`, `(s:may-have-key "a" s:string %s)`}, true},
	{"no-other-keys-child", []string{"(s:no-other-keys %s)", `(s:no-other-keys (s:has-key "a" s:int) %s)`}, true},
	{"when-guard", []string{`(s:when "a" %s "b" s:int)`, `(s:when "a" %s "b" (s:gt 100))`}, true},
	{"when-condition", []string{`(s:when "a" s:int "b" %s)`, `(s:when "a" s:int "b" s:int %s)`}, true},
}

var badPatterns = []string{`"*"`, `"("`, `"[a"`, `"a{2,1}"`, `"(?=a)"`, `"a**"`, `"\\"`, `"(?P<n"`, `"x{1001}"`, `")"`, `"+a"`}

var unknownTypes = []string{`"strng"`, `"integer"`, `"map"`, `""`, `"Int"`, `"sortedmap"`, `"boolean"`}

var badKeys = []struct{ piece, text string }{{"non-string-key", "5"}, {"symbol-key", "'a"}, {"non-string-key", "(vector)"}, {"non-string-key", "()"}}

var badNums = []struct{ piece, text string }{{"non-number-operand", `"a"`}, {"non-number-operand", "'x"}, {"non-number-operand", "()"}, {"non-number-operand", "(vector 1)"}}

var arityForms = []struct{ slot, text string }{
	{"gt", "(s:gt)"}, {"gt", "(s:gt 1 2)"}, {"lte", "(s:lte)"}, {"positive", "(s:positive 1)"}, {"negative", "(s:negative 0)"},
	{"len", "(s:len)"}, {"lengt", "(s:lengt 1 2)"}, {"not", "(s:not)"}, {"not", "(s:not (s:is-true) (s:is-true))"},
	{"when", `(s:when "a")`}, {"when", `(s:when "a" s:int)`}, {"has-key", "(s:has-key)"}, {"may-have-key", "(s:may-have-key)"},
	{"regexp", "(s:regexp)"}, {"regexp", `(s:regexp "a" "b")`}, {"is-true", "(s:is-true 1)"}, {"is-false", "(s:is-false 1)"},
	{"is-truthy", "(s:is-truthy 1)"}, {"is-falsy", "(s:is-falsy 1)"},
}

// Malformed picks a malformation.
func (g *Gen) Malformed() Malformed {
	switch g.weighted(40, 10, 14, 10, 8, 8, 5, 5) {
	case 0: // a non-constraint where a constraint / type is required
		nc := fw.Pick(g.R, nonConstraints)
		sl := fw.Pick(g.R, ncSlots)
		piece := nc.piece
		if sl.isType && piece == "string" {
			piece = "unknown-type-string"
		}
		return Malformed{Piece: piece, Slot: sl.slot, CondJudged: true, ConsText: fmt.Sprintf(fw.Pick(g.R, sl.tmpl), nc.text)}
	case 1:
		p := fw.Pick(g.R, badPatterns)
		if g.R.Chance(1, 6) {
			return Malformed{Piece: "non-string-pattern", Slot: "regexp", CondJudged: true, ConsText: "(s:regexp " + fw.Pick(g.R, []string{"5", "'a", "()"}) + ")"}
		}
		return Malformed{Piece: "bad-pattern", Slot: "regexp", CondJudged: true, ConsText: "(s:regexp " + p + ")"}
	case 2: // unknown type
		t := fw.Pick(g.R, unknownTypes)
		switch g.R.Intn(6) {
		case 0, 1:
			return Malformed{Piece: "unknown-type-string", Slot: "toplevel-type", CondJudged: true, TypeText: t}
		case 2:
			return Malformed{Piece: "unknown-type-string", Slot: "tagged-value-subtype", CondJudged: true, TypeText: "s:tagged-value " + t}
		case 3:
			nc := fw.Pick(g.R, nonConstraints[:5])
			return Malformed{Piece: nc.piece, Slot: "toplevel-type", CondJudged: true, TypeText: nc.text}
		case 4:
			return Malformed{Piece: "int", Slot: "toplevel-type", CondJudged: true, TypeText: "5"}
		}
		sl := fw.Pick(g.R, ncSlots[2:])
		return Malformed{Piece: "unknown-type-string", Slot: sl.slot, CondJudged: true, ConsText: fmt.Sprintf(fw.Pick(g.R, sl.tmpl), t)}
	case 3: // non-string key
		k := fw.Pick(g.R, badKeys)
		tm := fw.Pick(g.R, []struct{ slot, t string }{
			{"has-key-key", "(s:has-key %s s:int)"}, {"has-key-key", "(s:has-key %s)"}, {"may-have-key-key", "(s:may-have-key %s s:int)"},
			{"when-key", `(s:when %s s:int "b" s:int)`}, {"when-match-key", `(s:when "a" s:int %s s:int)`}})
		return Malformed{Piece: k.piece, Slot: tm.slot, CondJudged: true, ConsText: fmt.Sprintf(tm.t, k.text)}
	case 4: // non-number where a number is required
		n := fw.Pick(g.R, badNums)
		op := fw.Pick(g.R, []string{"gt", "gte", "lt", "lte", "len", "lengt", "lengte", "lenlt", "lenlte"})
		slot := "comparison-operand"
		if strings.HasPrefix(op, "len") {
			slot = "length-operand"
		}
		return Malformed{Piece: n.piece, Slot: slot, CondJudged: true, ConsText: "(s:" + op + " " + n.text + ")"}
	case 5:
		a := fw.Pick(g.R, arityForms)
		return Malformed{Piece: "wrong-arity", Slot: a.slot, ConsText: a.text}
	case 6:
		f := fw.Pick(g.R, []Malformed{
			{Piece: "symbol-name", Slot: "deftype-name", CondJudged: true, FormText: "(s:deftype '%s s:int)"},
			{Piece: "int-name", Slot: "deftype-name", CondJudged: true, FormText: "(s:deftype 5 s:int) ; %s"},
			{Piece: "int-name", Slot: "make-validator-name", CondJudged: true, FormText: "(set '%s (s:make-validator 5 s:int))"},
			{Piece: "symbol-name", Slot: "make-validator-name", CondJudged: true, FormText: "(set '%[1]s (s:make-validator '%[1]s s:int))"},
			{Piece: "wrong-arity", Slot: "deftype", FormText: `(s:deftype "%s")`},
			{Piece: "wrong-arity", Slot: "make-validator", FormText: `(set '%[1]s (s:make-validator "%[1]s"))`},
		})
		return f
	}
	// (A bare type name as first argument of s:validate is NOT in this list: the
	// README's "the same as validating against s:string" can be read as allowing it.)
	nc := fw.Pick(g.R, nonConstraints[:7])
	if nc.piece == "string" {
		nc.text = `"oops"`
	}
	return Malformed{Piece: nc.piece, Slot: "validate-validator-argument", CondJudged: true, ValidateAs: nc.text}
}
