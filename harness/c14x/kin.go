package c14x

import (
	"math"
	"strconv"

	"verifharness/fw"
)

// Kin: values of DIFFERENT kinds (or containers of such) that a sloppy notion
// of equality conflates because they share a spelling, a numeric value, their
// members or their emptiness:
//
//	string / symbol / bytes with the same text        "red" 'red (to-bytes "red")
//	int / float denoting the same number               4  4.0
//	a number and the string that spells it             12 "12"
//	list / array with the same members                 (list 1 2) (vector 1 2)
//	nil and the empty string / array / map / bytes     () "" (vector) (sorted-map)
//	a tagged value and its bare user data, or the same data under another tag
//	containers of one kind whose members are pairwise identical-or-kin
//
// These are the inputs on which an equality / membership constraint (s:in) can
// be wrong while every same-kind comparison is right; they are also exactly
// what JSON decoding produces next to a lisp-built value (true -> the symbol
// true, 4 -> 4.0, a list written as an array).

// KinOf names the relation between v and a, "" when there is none (identical
// values are not kin).  The name starts with the two kinds, so it can serve as
// the input class of a finding key.
func KinOf(v, a *Value) string {
	rel := kinRel(v, a, 0)
	if rel == "" {
		return ""
	}
	return v.K.String() + "-vs-" + a.K.String() + ":" + rel
}

func textOf(v *Value) (string, bool) {
	switch v.K {
	case VStr, VSym:
		return v.S, true
	case VBytes:
		return string(v.B), true
	}
	return "", false
}

func numText(v *Value) string {
	if v.K == VInt {
		return strconv.FormatInt(v.I, 10)
	}
	return FormatFloat(v.F)
}

func isEmptyContainer(v *Value) bool {
	switch v.K {
	case VStr:
		return v.S == ""
	case VBytes:
		return len(v.B) == 0
	case VArr:
		return len(v.Elems) == 0
	case VMap:
		return len(v.Entries) == 0
	}
	return false
}

func kinRel(v, a *Value, depth int) string {
	if depth > 6 {
		return ""
	}
	if v.K != a.K {
		tv, okv := textOf(v)
		ta, oka := textOf(a)
		switch {
		case okv && oka:
			if tv == ta {
				return "same-spelling"
			}
			return ""
		case v.IsNum() && a.IsNum():
			if toF(v) == toF(a) {
				return "same-number"
			}
			return ""
		case v.IsNum() && oka:
			if numText(v) == ta {
				return "number-and-its-text"
			}
			return ""
		case okv && a.IsNum():
			if numText(a) == tv {
				return "number-and-its-text"
			}
			return ""
		case v.K == VNil && isEmptyContainer(a), a.K == VNil && isEmptyContainer(v):
			return "both-empty"
		case (v.K == VList && a.K == VArr) || (v.K == VArr && a.K == VList):
			if _, ok := kinElems(v.Elems, a.Elems, depth); ok {
				return "same-members"
			}
			return ""
		case v.K == VTagged && v.User != nil:
			if v.User.Canon(false) == a.Canon(false) {
				return "tagged-and-its-user-data"
			}
		case a.K == VTagged && a.User != nil:
			if a.User.Canon(false) == v.Canon(false) {
				return "tagged-and-its-user-data"
			}
		}
		return ""
	}
	switch v.K {
	case VList, VArr:
		if inner, ok := kinElems(v.Elems, a.Elems, depth); ok && inner != "" {
			return "members:" + inner
		}
	case VMap:
		if len(v.Entries) != len(a.Entries) {
			return ""
		}
		inner := ""
		for _, e := range v.Entries {
			o, ok := a.Get(e.Key)
			if !ok {
				return ""
			}
			if e.Val.Canon(false) == o.Canon(false) {
				continue
			}
			r := kinRel(e.Val, o, depth+1)
			if r == "" {
				return ""
			}
			if inner == "" {
				inner = e.Val.K.String() + "-vs-" + o.K.String() + ":" + r
			}
		}
		if inner != "" {
			return "members:" + inner
		}
	case VTagged:
		if v.User == nil || a.User == nil {
			return ""
		}
		same := v.User.Canon(false) == a.User.Canon(false)
		if v.S != a.S {
			if same {
				return "same-user-data-other-tag"
			}
			return ""
		}
		if !same {
			if r := kinRel(v.User, a.User, depth+1); r != "" {
				return "members:" + v.User.K.String() + "-vs-" + a.User.K.String() + ":" + r
			}
		}
	}
	return ""
}

// kinElems: same length and pairwise identical-or-kin; inner names the first
// kin pair ("" when all members are identical).
func kinElems(x, y []*Value, depth int) (inner string, ok bool) {
	if len(x) != len(y) {
		return "", false
	}
	for i := range x {
		if x[i].Canon(false) == y[i].Canon(false) {
			continue
		}
		r := kinRel(x[i], y[i], depth+1)
		if r == "" {
			return "", false
		}
		if inner == "" {
			inner = x[i].K.String() + "-vs-" + y[i].K.String() + ":" + r
		}
	}
	return inner, true
}

// HasFun reports whether a function occurs anywhere in v (functions cannot be
// rebuilt from the model, so nothing about their identity is judged).
func (v *Value) HasFun() bool {
	if v.K == VFun {
		return true
	}
	for _, e := range v.Elems {
		if e.HasFun() {
			return true
		}
	}
	for _, e := range v.Entries {
		if e.Val.HasFun() {
			return true
		}
	}
	return v.User != nil && v.User.HasFun()
}

// quotableSymbol: spellings the harness writes as 'name (ASCII letters, digits
// and dashes, starting with a letter).
func quotableSymbol(s string) bool {
	if s == "" {
		return false
	}
	for i, r := range s {
		switch {
		case r >= 'a' && r <= 'z', r >= 'A' && r <= 'Z':
		case (r >= '0' && r <= '9' || r == '-') && i > 0:
		default:
			return false
		}
	}
	return true
}

// Siblings returns the kin of v: for every relation KinOf knows, the values
// that stand in it to v.
func (g *Gen) Siblings(v *Value, depth int) []*Value {
	var out []*Value
	text := func(s string, not VK) {
		if not != VStr {
			out = append(out, Str(s))
		}
		if not != VSym && quotableSymbol(s) {
			out = append(out, Sym(s))
		}
		if not != VBytes {
			out = append(out, Bytes(s))
		}
		if not == VStr || not == VSym {
			if i, err := strconv.ParseInt(s, 10, 64); err == nil && strconv.FormatInt(i, 10) == s {
				out = append(out, Int(i))
			} else if f, err := strconv.ParseFloat(s, 64); err == nil && FormatFloat(f) == s {
				out = append(out, Float(f))
			}
		}
	}
	empties := func(not VK) {
		// nil twice: it is the input an absent JSON field / a missing key presents
		for _, e := range []*Value{Nil(), Nil(), Str(""), {K: VArr, Elems: []*Value{}}, {K: VMap, Entries: []Entry{}}, Bytes("")} {
			if e.K != not {
				out = append(out, e)
			}
		}
	}
	// one member replaced by one of its own kin
	members := func(elems []*Value, build func([]*Value) *Value) {
		if depth > 3 || len(elems) == 0 {
			return
		}
		i := g.R.Intn(len(elems))
		sibs := g.Siblings(elems[i], depth+1)
		if len(sibs) == 0 {
			return
		}
		cp := append([]*Value(nil), elems...)
		cp[i] = fw.Pick(g.R, sibs)
		out = append(out, build(cp))
	}
	switch v.K {
	case VStr:
		text(v.S, VStr)
		if v.S == "" {
			empties(VStr)
		}
	case VSym:
		text(v.S, VSym)
	case VBytes:
		text(string(v.B), VBytes)
		if len(v.B) == 0 {
			empties(VBytes)
		}
	case VInt:
		if f := float64(v.I); !math.IsInf(f, 0) {
			out = append(out, Float(f))
		}
		out = append(out, Str(numText(v)))
	case VFloat:
		if v.F == math.Trunc(v.F) && math.Abs(v.F) < 1<<62 {
			out = append(out, Int(int64(v.F)))
		}
		out = append(out, Str(numText(v)))
	case VNil:
		empties(VNil)
	case VList:
		out = append(out, &Value{K: VArr, Elems: append([]*Value{}, v.Elems...)})
		members(v.Elems, func(e []*Value) *Value { return &Value{K: VList, Elems: e} })
	case VArr:
		if len(v.Elems) == 0 {
			empties(VArr)
		} else {
			out = append(out, &Value{K: VList, Elems: append([]*Value{}, v.Elems...)})
			members(v.Elems, func(e []*Value) *Value { return &Value{K: VArr, Elems: e} })
		}
	case VMap:
		if len(v.Entries) == 0 {
			empties(VMap)
		} else if depth <= 3 {
			i := g.R.Intn(len(v.Entries))
			if sibs := g.Siblings(v.Entries[i].Val, depth+1); len(sibs) > 0 {
				cp := append([]Entry(nil), v.Entries...)
				cp[i].Val = fw.Pick(g.R, sibs)
				out = append(out, &Value{K: VMap, Entries: cp})
			}
		}
	case VTagged:
		if v.User != nil {
			out = append(out, v.User)
			other := TagA
			if v.S == TagA {
				other = TagB
			}
			out = append(out, Tagged(other, v.User))
			if depth <= 3 {
				if sibs := g.Siblings(v.User, depth+1); len(sibs) > 0 {
					out = append(out, Tagged(v.S, fw.Pick(g.R, sibs)))
				}
			}
		}
	}
	return out
}
