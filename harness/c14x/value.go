// Package c14x is the reference model of the *documented* meaning of the
// libschema (s:*) validators, used by property C14.  It contains no call into
// libschema, regexp or the interpreter: model values, schema ASTs, their
// rendering to lisp source, and an evaluator
//
//	(schema AST, model value) -> set of permitted outcomes
//
// over {accept, wrong-type, failed-constraint}.  A set with more than one
// member means the documentation does not decide the case (not judged).
package c14x

import (
	"fmt"
	"math"
	"math/big"
	"sort"
	"strconv"
	"strings"
	"unicode/utf8"
)

// VK is the kind of a model value.
type VK int

const (
	VInt VK = iota
	VFloat
	VStr
	VBytes
	VSym
	VNil
	VList
	VArr
	VMap
	VFun
	VTagged
)

var vkNames = [...]string{"int", "float", "string", "bytes", "symbol", "nil", "list", "array", "map", "fun", "tagged"}

func (k VK) String() string { return vkNames[k] }

// Entry is one map entry.  Sym records whether the key is a symbol in the
// lisp value (the model never looks at it: documented lookups are by name).
type Entry struct {
	Key string
	Sym bool
	Val *Value
}

// Value is a model value.
type Value struct {
	K       VK
	I       int64
	F       float64
	S       string   // string contents / symbol name / tagged type name (unqualified) / fun source
	B       []byte   // bytes
	Elems   []*Value // list / array members
	Entries []Entry  // map entries (unique key names)
	User    *Value   // tagged user data
	JSON    bool     // map came out of json:load-string (informational only)
}

func Int(i int64) *Value     { return &Value{K: VInt, I: i} }
func Float(f float64) *Value { return &Value{K: VFloat, F: f} }
func Str(s string) *Value    { return &Value{K: VStr, S: s} }
func Bytes(b string) *Value  { return &Value{K: VBytes, B: []byte(b)} }
func Sym(s string) *Value    { return &Value{K: VSym, S: s} }
func Nil() *Value            { return &Value{K: VNil} }
func Arr(e ...*Value) *Value { return &Value{K: VArr, Elems: e} }
func List(e ...*Value) *Value {
	if len(e) == 0 {
		return Nil()
	}
	return &Value{K: VList, Elems: e}
}
func Map(e ...Entry) *Value { return &Value{K: VMap, Entries: e} }
func Fun(src string) *Value { return &Value{K: VFun, S: src} }
func Tagged(typ string, user *Value) *Value {
	return &Value{K: VTagged, S: typ, User: user}
}

// Get looks a key up by name.
func (v *Value) Get(key string) (*Value, bool) {
	for _, e := range v.Entries {
		if e.Key == key {
			return e.Val, true
		}
	}
	return nil, false
}

// FormatFloat renders f so that the elps reader yields exactly f.
func FormatFloat(f float64) string {
	s := strconv.FormatFloat(f, 'g', -1, 64)
	if !strings.ContainsAny(s, ".e") {
		s += ".0"
	}
	return s
}

// Render renders v as a lisp expression that evaluates to it.
func (v *Value) Render() string {
	var sb strings.Builder
	v.render(&sb)
	return sb.String()
}

func quoteStr(s string) string {
	// The generators only produce strings that need \\ and \" escapes.
	var sb strings.Builder
	sb.WriteByte('"')
	for _, r := range s {
		switch r {
		case '\\':
			sb.WriteString(`\\`)
		case '"':
			sb.WriteString(`\"`)
		case '\n':
			sb.WriteString(`\n`)
		case '\t':
			sb.WriteString(`\t`)
		default:
			sb.WriteRune(r)
		}
	}
	sb.WriteByte('"')
	return sb.String()
}

// QuoteStr renders a lisp string literal.
func QuoteStr(s string) string { return quoteStr(s) }

func (v *Value) render(sb *strings.Builder) {
	switch v.K {
	case VInt:
		sb.WriteString(strconv.FormatInt(v.I, 10))
	case VFloat:
		sb.WriteString(FormatFloat(v.F))
	case VStr:
		sb.WriteString(quoteStr(v.S))
	case VBytes:
		sb.WriteString("(to-bytes " + quoteStr(string(v.B)) + ")")
	case VSym:
		sb.WriteString("'" + v.S)
	case VNil:
		sb.WriteString("()")
	case VList:
		sb.WriteString("(list")
		for _, e := range v.Elems {
			sb.WriteByte(' ')
			e.render(sb)
		}
		sb.WriteByte(')')
	case VArr:
		sb.WriteString("(vector")
		for _, e := range v.Elems {
			sb.WriteByte(' ')
			e.render(sb)
		}
		sb.WriteByte(')')
	case VMap:
		sb.WriteString("(sorted-map")
		for _, e := range v.Entries {
			sb.WriteByte(' ')
			if e.Sym {
				sb.WriteString("'" + e.Key)
			} else {
				sb.WriteString(quoteStr(e.Key))
			}
			sb.WriteByte(' ')
			e.Val.render(sb)
		}
		sb.WriteByte(')')
	case VFun:
		sb.WriteString(v.S)
	case VTagged:
		sb.WriteString("(new " + v.S + " ")
		v.User.render(sb)
		sb.WriteByte(')')
	}
}

// Canon is a canonical text of the value (map entries sorted by name; key
// kinds included when withKeyKinds).  Two values are the same model value iff
// their Canon texts are equal.  Functions compare by kind only.
func (v *Value) Canon(withKeyKinds bool) string {
	var sb strings.Builder
	v.canon(&sb, withKeyKinds)
	return sb.String()
}

func (v *Value) canon(sb *strings.Builder, kk bool) {
	switch v.K {
	case VInt:
		fmt.Fprintf(sb, "i%d", v.I)
	case VFloat:
		fmt.Fprintf(sb, "f%016x", math.Float64bits(v.F))
	case VStr:
		fmt.Fprintf(sb, "s%q", v.S)
	case VBytes:
		fmt.Fprintf(sb, "b%q", string(v.B))
	case VSym:
		sb.WriteString("y" + v.S)
	case VNil:
		sb.WriteString("nil")
	case VList, VArr:
		if v.K == VList {
			sb.WriteString("L(")
		} else {
			sb.WriteString("A(")
		}
		for i, e := range v.Elems {
			if i > 0 {
				sb.WriteByte(' ')
			}
			e.canon(sb, kk)
		}
		sb.WriteByte(')')
	case VMap:
		es := append([]Entry(nil), v.Entries...)
		sort.Slice(es, func(i, j int) bool { return es[i].Key < es[j].Key })
		sb.WriteString("M{")
		for i, e := range es {
			if i > 0 {
				sb.WriteByte(' ')
			}
			if kk && e.Sym {
				sb.WriteByte('\'')
			}
			fmt.Fprintf(sb, "%q:", e.Key)
			e.Val.canon(sb, kk)
		}
		sb.WriteByte('}')
	case VFun:
		sb.WriteString("fun")
	case VTagged:
		sb.WriteString("T<" + v.S + ">(")
		v.User.canon(sb, kk)
		sb.WriteByte(')')
	}
}

// WithKeys returns a deep copy of v in which every map key (at any depth) is a
// symbol (sym=true) or a string (sym=false).
func (v *Value) WithKeys(sym bool) *Value {
	cp := *v
	cp.JSON = false
	if v.Elems != nil {
		cp.Elems = make([]*Value, len(v.Elems))
		for i, e := range v.Elems {
			cp.Elems[i] = e.WithKeys(sym)
		}
	}
	if v.Entries != nil {
		cp.Entries = make([]Entry, len(v.Entries))
		for i, e := range v.Entries {
			cp.Entries[i] = Entry{Key: e.Key, Sym: sym, Val: e.Val.WithKeys(sym)}
		}
	}
	if v.User != nil {
		cp.User = v.User.WithKeys(sym)
	}
	return &cp
}

// SymbolSafeKeys reports whether every map key of v can be written as a symbol.
func (v *Value) SymbolSafeKeys() bool {
	for _, e := range v.Elems {
		if !e.SymbolSafeKeys() {
			return false
		}
	}
	for _, e := range v.Entries {
		if !IsSymbolName(e.Key) || !e.Val.SymbolSafeKeys() {
			return false
		}
	}
	if v.User != nil {
		return v.User.SymbolSafeKeys()
	}
	return true
}

// IsSymbolName reports whether s is one of the plain names the generators use
// for symbol keys.
func IsSymbolName(s string) bool {
	if s == "" || s == "true" || s == "false" {
		return false
	}
	for i, r := range s {
		switch {
		case r >= 'a' && r <= 'z':
		case (r >= '0' && r <= '9' || r == '-') && i > 0:
		default:
			return false
		}
	}
	return true
}

// KeyClass is Class without the origin of a map (finding keys name the input
// class; origin-specific defects are keyed by the twin comparison instead).
func (v *Value) KeyClass() string {
	c := v.Class()
	c = strings.TrimSuffix(c, ":lisp")
	return strings.TrimSuffix(c, ":json")
}

// Class is the value class used in finding keys and coverage keys: stable,
// small, and specific enough to name the input class of a defect.
func (v *Value) Class() string {
	switch v.K {
	case VInt:
		if v.I > 1<<53 || v.I < -(1<<53) {
			return "int:beyond-2^53"
		}
		switch {
		case v.I == 0:
			return "int:zero"
		case v.I < 0:
			return "int:negative"
		}
		return "int:positive"
	case VFloat:
		if math.Abs(v.F) >= 1<<53 {
			return "float:beyond-2^53"
		}
		switch {
		case v.F == 0:
			return "float:zero"
		case v.F < 0:
			return "float:negative"
		}
		return "float:positive"
	case VStr:
		switch v.S {
		case "":
			return "string:empty"
		case "true":
			return `string:"true"`
		case "false":
			return `string:"false"`
		}
		if len(v.S) != utf8.RuneCountInString(v.S) {
			return "string:multibyte"
		}
		return "string:other"
	case VBytes:
		if len(v.B) == 0 {
			return "bytes:empty"
		}
		return "bytes:non-empty"
	case VSym:
		if v.S == "true" || v.S == "false" {
			return "symbol:" + v.S
		}
		return "symbol:other"
	case VNil:
		return "nil"
	case VList:
		return "list"
	case VArr:
		if len(v.Elems) == 0 {
			return "array:empty"
		}
		return "array:non-empty"
	case VMap:
		o := "lisp"
		if v.JSON {
			o = "json"
		}
		if len(v.Entries) == 0 {
			return "map:empty:" + o
		}
		return "map:non-empty:" + o
	case VFun:
		return "fun"
	case VTagged:
		return "tagged"
	}
	return "?"
}

// ---------------------------------------------------------------------------
// exact numeric comparison

// NumCmp compares two numeric model values as the exact rationals they denote.
// ok is false when either is not a finite number.
func NumCmp(a, b *Value) (cmp int, ok bool) {
	ra, ok1 := rat(a)
	rb, ok2 := rat(b)
	if !ok1 || !ok2 {
		return 0, false
	}
	return ra.Cmp(rb), true
}

func rat(v *Value) (*big.Rat, bool) {
	switch v.K {
	case VInt:
		return new(big.Rat).SetInt64(v.I), true
	case VFloat:
		if math.IsNaN(v.F) || math.IsInf(v.F, 0) {
			return nil, false
		}
		r := new(big.Rat)
		r.SetFloat64(v.F)
		return r, true
	}
	return nil, false
}

// IsNum reports whether v is an int or a float.
func (v *Value) IsNum() bool { return v.K == VInt || v.K == VFloat }
