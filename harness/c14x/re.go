package c14x

import (
	"fmt"
	"strings"
)

// A tiny regular-expression AST with its own backtracking matcher, so that
// s:regexp can be judged without Go's regexp package (which libschema uses).
// Only the RE2 subset whose meaning is uncontroversial is generated: literals,
// '.', bracket classes of ranges, \d, concatenation, alternation, groups,
// * + ? {n} {n,m} {n,}, and ^ / $ at the two ends of the pattern.

type ReOp int

const (
	ReLit ReOp = iota
	ReAny
	ReClass
	ReDigit
	ReCat
	ReAlt
	ReRep
)

type Re struct {
	Op     ReOp
	R      rune
	Ranges [][2]rune
	Neg    bool
	Subs   []*Re
	Min    int
	Max    int // -1 = unbounded
}

// Pattern is a whole pattern: optional ^, body, optional $.
type Pattern struct {
	Begin, End bool
	Body       *Re
}

const reMeta = `\.+*?()|[]{}^$`

func (re *Re) atom() bool {
	switch re.Op {
	case ReLit, ReAny, ReClass, ReDigit:
		return true
	}
	return false
}

func (re *Re) src(sb *strings.Builder) {
	switch re.Op {
	case ReLit:
		if strings.ContainsRune(reMeta, re.R) {
			sb.WriteByte('\\')
		}
		sb.WriteRune(re.R)
	case ReAny:
		sb.WriteByte('.')
	case ReDigit:
		sb.WriteString(`\d`)
	case ReClass:
		sb.WriteByte('[')
		if re.Neg {
			sb.WriteByte('^')
		}
		for _, rg := range re.Ranges {
			if rg[0] == rg[1] {
				sb.WriteRune(rg[0])
			} else {
				fmt.Fprintf(sb, "%c-%c", rg[0], rg[1])
			}
		}
		sb.WriteByte(']')
	case ReCat:
		for _, s := range re.Subs {
			if s.Op == ReAlt {
				sb.WriteString("(?:")
				s.src(sb)
				sb.WriteByte(')')
			} else {
				s.src(sb)
			}
		}
	case ReAlt:
		for i, s := range re.Subs {
			if i > 0 {
				sb.WriteByte('|')
			}
			s.src(sb)
		}
	case ReRep:
		s := re.Subs[0]
		if s.atom() {
			s.src(sb)
		} else {
			sb.WriteByte('(')
			s.src(sb)
			sb.WriteByte(')')
		}
		switch {
		case re.Min == 0 && re.Max == -1:
			sb.WriteByte('*')
		case re.Min == 1 && re.Max == -1:
			sb.WriteByte('+')
		case re.Min == 0 && re.Max == 1:
			sb.WriteByte('?')
		case re.Max == -1:
			fmt.Fprintf(sb, "{%d,}", re.Min)
		case re.Min == re.Max:
			fmt.Fprintf(sb, "{%d}", re.Min)
		default:
			fmt.Fprintf(sb, "{%d,%d}", re.Min, re.Max)
		}
	}
}

// Source renders the pattern in RE2 syntax.
func (p *Pattern) Source() string {
	var sb strings.Builder
	if p.Begin {
		sb.WriteByte('^')
	}
	if (p.Begin || p.End) && p.Body.Op == ReAlt {
		sb.WriteString("(?:")
		p.Body.src(&sb)
		sb.WriteByte(')')
	} else {
		p.Body.src(&sb)
	}
	if p.End {
		sb.WriteByte('$')
	}
	return sb.String()
}

func (re *Re) inClass(r rune) bool {
	in := false
	for _, rg := range re.Ranges {
		if r >= rg[0] && r <= rg[1] {
			in = true
			break
		}
	}
	return in != re.Neg
}

// m matches re at s[i:] and calls k with every end position until k accepts.
func (re *Re) m(s []rune, i int, k func(int) bool) bool {
	switch re.Op {
	case ReLit:
		return i < len(s) && s[i] == re.R && k(i+1)
	case ReAny:
		return i < len(s) && s[i] != '\n' && k(i+1)
	case ReDigit:
		return i < len(s) && s[i] >= '0' && s[i] <= '9' && k(i+1)
	case ReClass:
		return i < len(s) && re.inClass(s[i]) && k(i+1)
	case ReCat:
		var step func(n, j int) bool
		step = func(n, j int) bool {
			if n == len(re.Subs) {
				return k(j)
			}
			return re.Subs[n].m(s, j, func(e int) bool { return step(n+1, e) })
		}
		return step(0, i)
	case ReAlt:
		for _, sub := range re.Subs {
			if sub.m(s, i, k) {
				return true
			}
		}
		return false
	case ReRep:
		sub := re.Subs[0]
		var rec func(count, j int) bool
		rec = func(count, j int) bool {
			if count >= re.Min && k(j) {
				return true
			}
			if re.Max >= 0 && count >= re.Max {
				return false
			}
			return sub.m(s, j, func(e int) bool {
				if e == j && count >= re.Min {
					return false // no progress: further iterations add nothing
				}
				return rec(count+1, e)
			})
		}
		return rec(0, i)
	}
	return false
}

// Full reports whether the body matches the whole of s.
func (p *Pattern) Full(str string) bool {
	s := []rune(str)
	return p.Body.m(s, 0, func(e int) bool { return e == len(s) })
}

// Search reports whether the pattern matches somewhere in s (RE2 / Go
// MatchString semantics, honouring ^ and $).
func (p *Pattern) Search(str string) bool {
	s := []rune(str)
	for start := 0; start <= len(s); start++ {
		if p.Begin && start > 0 {
			break
		}
		if p.Body.m(s, start, func(e int) bool { return !p.End || e == len(s) }) {
			return true
		}
	}
	return false
}
