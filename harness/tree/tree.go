// Package tree is a neutral structural snapshot of a lisp value, taken either
// from a real *lisp.LVal (through exported fields/accessors only) or from the
// reference interpreter's value, so the two can be compared node by node.
package tree

import (
	"fmt"
	"math"
	"sort"
	"strconv"
	"strings"

	"github.com/luthersystems/elps/lisp"
)

type T struct {
	K    string // int float string symbol list vector map bytes fun error tagged quote native array opaque
	I    int64
	F    float64
	S    string
	Q    bool
	Kids []*T // list/vector elements; map: k0 v0 k1 v1 … in key order; quote/tagged: inner
}

// Opaque matches anything.
var Opaque = &T{K: "opaque"}

// FromLVal snapshots v.  depth bounds cyclic values.
func FromLVal(v *lisp.LVal) *T { return fromLVal(v, 0) }

func fromLVal(v *lisp.LVal, depth int) *T {
	if v == nil {
		return &T{K: "gonil"}
	}
	if depth > 200 {
		return &T{K: "deep"}
	}
	switch v.Type {
	case lisp.LInt:
		return &T{K: "int", I: int64(v.Int)}
	case lisp.LFloat:
		return &T{K: "float", F: v.Float}
	case lisp.LString:
		return &T{K: "string", S: v.Str}
	case lisp.LSymbol, lisp.LQSymbol:
		return &T{K: "symbol", S: v.Str, Q: v.IsQuoted()}
	case lisp.LSExpr:
		t := &T{K: "list", Q: v.IsQuoted()}
		for _, c := range v.Cells {
			t.Kids = append(t.Kids, fromLVal(c, depth+1))
		}
		return t
	case lisp.LQuote:
		return &T{K: "quote", Kids: []*T{fromLVal(v.Cells[0], depth+1)}}
	case lisp.LArray:
		dims := v.Cells[0]
		if dims.Len() == 1 {
			t := &T{K: "vector"}
			for _, c := range v.Cells[1].Cells {
				t.Kids = append(t.Kids, fromLVal(c, depth+1))
			}
			return t
		}
		return &T{K: "array", S: dims.String()}
	case lisp.LSortMap:
		t := &T{K: "map"}
		ents := v.MapEntries()
		if ents.Type == lisp.LError {
			return &T{K: "map", S: "bad-entries"}
		}
		for _, p := range ents.Cells {
			k := p.Cells[0]
			t.Kids = append(t.Kids, &T{K: "key", S: k.Str, Q: k.Type == lisp.LSymbol}, fromLVal(p.Cells[1], depth+1))
		}
		return t
	case lisp.LBytes:
		return &T{K: "bytes", S: string(v.Bytes())}
	case lisp.LFun:
		return &T{K: "fun"}
	case lisp.LError:
		return &T{K: "error", S: v.Str}
	case lisp.LTaggedVal:
		return &T{K: "tagged", S: v.Str, Kids: []*T{fromLVal(v.Cells[0], depth+1)}}
	case lisp.LNative:
		return &T{K: "native", S: fmt.Sprintf("%T", v.Native)}
	default:
		return &T{K: "mark:" + v.Type.String()}
	}
}

// Opts controls comparison.
type Opts struct {
	IgnoreQuote bool
}

// Equal compares two snapshots; floats compare bitwise except that all NaNs are equal.
func Equal(a, b *T, o Opts) bool {
	if a == nil || b == nil {
		return a == b
	}
	if a.K == "opaque" || b.K == "opaque" {
		return true
	}
	if a.K != b.K {
		return false
	}
	switch a.K {
	case "int":
		return a.I == b.I
	case "float":
		if math.IsNaN(a.F) && math.IsNaN(b.F) {
			return true
		}
		return math.Float64bits(a.F) == math.Float64bits(b.F)
	case "string", "bytes", "error", "native", "array", "name":
		return a.S == b.S
	case "symbol":
		return a.S == b.S && (o.IgnoreQuote || a.Q == b.Q)
	case "key":
		return a.S == b.S
	case "fun":
		return true
	}
	if a.K == "list" && !o.IgnoreQuote && a.Q != b.Q && (len(a.Kids) > 0 || len(b.Kids) > 0) {
		return false
	}
	if a.S != b.S || len(a.Kids) != len(b.Kids) {
		return false
	}
	for i := range a.Kids {
		if !Equal(a.Kids[i], b.Kids[i], o) {
			return false
		}
	}
	return true
}

func (t *T) String() string {
	var sb strings.Builder
	t.write(&sb)
	return sb.String()
}

func (t *T) write(sb *strings.Builder) {
	if t == nil {
		sb.WriteString("<nil>")
		return
	}
	q := ""
	if t.Q {
		q = "'"
	}
	switch t.K {
	case "int":
		sb.WriteString(strconv.FormatInt(t.I, 10))
	case "float":
		sb.WriteString(strconv.FormatFloat(t.F, 'g', -1, 64))
		if t.F == math.Trunc(t.F) && !math.IsInf(t.F, 0) && math.Abs(t.F) < 1e15 {
			sb.WriteString("f")
		}
	case "string":
		sb.WriteString(strconv.Quote(t.S))
	case "symbol":
		sb.WriteString(q + t.S)
	case "key":
		if t.Q {
			sb.WriteString("'" + t.S)
		} else {
			sb.WriteString(strconv.Quote(t.S))
		}
	case "list", "vector", "map":
		switch t.K {
		case "list":
			sb.WriteString(q + "(")
		case "vector":
			sb.WriteString("(vector")
		case "map":
			sb.WriteString("(sorted-map")
		}
		for i, k := range t.Kids {
			if i > 0 || t.K != "list" {
				sb.WriteByte(' ')
			}
			k.write(sb)
		}
		sb.WriteByte(')')
	case "quote":
		sb.WriteString("'")
		t.Kids[0].write(sb)
	case "tagged":
		sb.WriteString("#{" + t.S + " ")
		t.Kids[0].write(sb)
		sb.WriteString("}")
	case "bytes":
		sb.WriteString(fmt.Sprintf("#<bytes %x>", t.S))
	default:
		sb.WriteString("#<" + t.K + " " + t.S + ">")
	}
}

// TypeClass returns a coarse class for coverage keys.
func (t *T) TypeClass() string {
	if t == nil {
		return "nil"
	}
	switch t.K {
	case "list":
		if len(t.Kids) == 0 {
			return "nil"
		}
		return "list"
	case "symbol":
		if t.S == "true" || t.S == "false" {
			return "bool"
		}
		if strings.HasPrefix(t.S, ":") {
			return "keyword"
		}
	}
	return t.K
}

// SortedKeys is a helper for deterministic map iteration in monitors.
func SortedKeys[V any](m map[string]V) []string {
	ks := make([]string, 0, len(m))
	for k := range m {
		ks = append(ks, k)
	}
	sort.Strings(ks)
	return ks
}
