// Package c13x is the independent JSON reference used by the C13 check: a
// byte-level RFC 8259 recognizer + decoder that keeps every number as its
// literal text, arbitrary-precision helpers that say what a literal denotes
// (math/big only), an own UTF-8 validator, and a generator of RFC 8259 texts
// and near-miss mutations.
//
// It deliberately imports neither encoding/json, nor strconv's float parser,
// nor unicode/utf8, nor anything from the repository under test: those are the
// mechanisms libjson is built on.
package c13x

import "fmt"

// Kind is the JSON value kind of a Node.
type Kind uint8

const (
	KNull Kind = iota
	KBool
	KNum
	KStr
	KArr
	KObj
)

func (k Kind) String() string {
	return [...]string{"null", "bool", "number", "string", "array", "object"}[k]
}

// Node is one decoded JSON value.
type Node struct {
	Kind Kind
	Bool bool
	// Lit is the literal text of a number exactly as written.
	Lit string
	// Str is the decoded string.  A \u escape that is a lone surrogate decodes
	// to U+FFFD (and sets Lone); raw bytes that are not valid UTF-8 are kept
	// as they are (and set BadUTF8).
	Str     string
	Lone    bool
	BadUTF8 bool
	// Esc is a bit set of the escape classes that appeared in a string.
	Esc     uint32
	Elems   []*Node
	Members []Member
	// Off, End delimit the value's own text in the document (no whitespace).
	Off, End int
}

// Member is one name/value pair of an object, in document order (duplicates
// are all kept).
type Member struct {
	Key *Node
	Val *Node
}

// Escape-class bits recorded in Node.Esc.
const (
	EscQuote     = 1 << iota // \"
	EscBackslash             // \\
	EscSolidus               // \/
	EscShort                 // \b \f \n \r \t
	EscUBMP                  // \uXXXX of a BMP scalar
	EscUUpperHex             // hex digits A-F
	EscUCtl                  // \u00XX below 0x20
	EscPair                  // surrogate pair escapes
	EscLoneHigh              // lone high surrogate
	EscLoneLow               // lone low surrogate
	RawMulti2                // raw 2-byte UTF-8
	RawMulti3                // raw 3-byte UTF-8
	RawMulti4                // raw 4-byte UTF-8
	RawDEL                   // raw 0x7f
	RawLineSep               // raw U+2028 / U+2029
	RawBadUTF8               // raw invalid UTF-8 byte
)

// Doc is the verdict of Parse.
type Doc struct {
	// Valid is the grammar-level verdict (bytes >= 0x80 inside strings are
	// taken as unescaped characters whatever they are).
	Valid bool
	// UTF8 reports whether the whole input is well-formed UTF-8.  A "JSON
	// text" in the sense of RFC 8259 section 8.1 is Valid && UTF8.
	UTF8   bool
	Root   *Node
	ErrOff int
	Err    string
	Depth  int // deepest container nesting
	NNum   int
	NStr   int
	HasDup bool // some object has two members with the same decoded name
}

type parser struct {
	b     []byte
	i     int
	depth int
	max   int
	doc   *Doc
}

type perr struct {
	off int
	msg string
}

func (p *parser) fail(off int, f string, a ...any) { panic(perr{off, fmt.Sprintf(f, a...)}) }

// MaxDepth bounds the recognizer's own recursion; deeper documents are
// reported as invalid with Err "too deep" (workloads stay far below it).
const MaxDepth = 9000

// Parse recognizes and decodes one document.
func Parse(b []byte) (doc *Doc) {
	doc = &Doc{UTF8: ValidUTF8(b)}
	p := &parser{b: b, doc: doc}
	defer func() {
		if r := recover(); r != nil {
			e, ok := r.(perr)
			if !ok {
				panic(r)
			}
			doc.Valid, doc.Root, doc.ErrOff, doc.Err = false, nil, e.off, e.msg
		}
	}()
	p.ws()
	root := p.value()
	p.ws()
	if p.i != len(b) {
		p.fail(p.i, "trailing data after top-level value")
	}
	doc.Valid, doc.Root, doc.Depth = true, root, p.max
	return doc
}

func (p *parser) ws() {
	for p.i < len(p.b) {
		switch p.b[p.i] {
		case 0x20, 0x09, 0x0a, 0x0d:
			p.i++
		default:
			return
		}
	}
}

func (p *parser) value() *Node {
	if p.i >= len(p.b) {
		p.fail(p.i, "unexpected end of input, value expected")
	}
	switch c := p.b[p.i]; {
	case c == '{':
		return p.object()
	case c == '[':
		return p.array()
	case c == '"':
		return p.str()
	case c == '-' || (c >= '0' && c <= '9'):
		return p.number()
	case c == 't':
		return p.lit("true", &Node{Kind: KBool, Bool: true})
	case c == 'f':
		return p.lit("false", &Node{Kind: KBool})
	case c == 'n':
		return p.lit("null", &Node{Kind: KNull})
	default:
		p.fail(p.i, "unexpected byte 0x%02x, value expected", c)
	}
	return nil
}

func (p *parser) lit(word string, n *Node) *Node {
	if len(p.b)-p.i < len(word) || string(p.b[p.i:p.i+len(word)]) != word {
		p.fail(p.i, "bad literal, %s expected", word)
	}
	n.Off = p.i
	p.i += len(word)
	n.End = p.i
	return n
}

func (p *parser) enter() {
	p.depth++
	if p.depth > p.max {
		p.max = p.depth
	}
	if p.depth > MaxDepth {
		p.fail(p.i, "too deep")
	}
}

func (p *parser) array() *Node {
	n := &Node{Kind: KArr, Off: p.i}
	p.enter()
	p.i++ // [
	p.ws()
	if p.i < len(p.b) && p.b[p.i] == ']' {
		p.i++
		p.depth--
		n.End = p.i
		return n
	}
	for {
		p.ws()
		n.Elems = append(n.Elems, p.value())
		p.ws()
		if p.i >= len(p.b) {
			p.fail(p.i, "unexpected end of input in array")
		}
		switch p.b[p.i] {
		case ',':
			p.i++
		case ']':
			p.i++
			p.depth--
			n.End = p.i
			return n
		default:
			p.fail(p.i, "unexpected byte 0x%02x in array, ',' or ']' expected", p.b[p.i])
		}
	}
}

func (p *parser) object() *Node {
	n := &Node{Kind: KObj, Off: p.i}
	p.enter()
	p.i++ // {
	p.ws()
	if p.i < len(p.b) && p.b[p.i] == '}' {
		p.i++
		p.depth--
		n.End = p.i
		return n
	}
	var seen map[string]bool
	for {
		p.ws()
		if p.i >= len(p.b) {
			p.fail(p.i, "unexpected end of input in object")
		}
		if p.b[p.i] != '"' {
			p.fail(p.i, "unexpected byte 0x%02x, member name expected", p.b[p.i])
		}
		k := p.str()
		p.ws()
		if p.i >= len(p.b) || p.b[p.i] != ':' {
			p.fail(p.i, "':' expected after member name")
		}
		p.i++
		p.ws()
		v := p.value()
		n.Members = append(n.Members, Member{k, v})
		if len(n.Members) > 1 {
			if seen == nil {
				seen = map[string]bool{n.Members[0].Key.Str: true}
			}
			if seen[k.Str] {
				p.doc.HasDup = true
			}
			seen[k.Str] = true
		}
		p.ws()
		if p.i >= len(p.b) {
			p.fail(p.i, "unexpected end of input in object")
		}
		switch p.b[p.i] {
		case ',':
			p.i++
		case '}':
			p.i++
			p.depth--
			n.End = p.i
			return n
		default:
			p.fail(p.i, "unexpected byte 0x%02x in object, ',' or '}' expected", p.b[p.i])
		}
	}
}

func isDigit(c byte) bool { return c >= '0' && c <= '9' }

func (p *parser) number() *Node {
	start := p.i
	b := p.b
	i := p.i
	if b[i] == '-' {
		i++
	}
	if i >= len(b) || !isDigit(b[i]) {
		p.fail(i, "digit expected in number")
	}
	if b[i] == '0' {
		i++
	} else {
		for i < len(b) && isDigit(b[i]) {
			i++
		}
	}
	if i < len(b) && b[i] == '.' {
		i++
		if i >= len(b) || !isDigit(b[i]) {
			p.fail(i, "digit expected after decimal point")
		}
		for i < len(b) && isDigit(b[i]) {
			i++
		}
	}
	if i < len(b) && (b[i] == 'e' || b[i] == 'E') {
		i++
		if i < len(b) && (b[i] == '+' || b[i] == '-') {
			i++
		}
		if i >= len(b) || !isDigit(b[i]) {
			p.fail(i, "digit expected in exponent")
		}
		for i < len(b) && isDigit(b[i]) {
			i++
		}
	}
	p.i = i
	p.doc.NNum++
	return &Node{Kind: KNum, Lit: string(b[start:i]), Off: start, End: i}
}

func hexVal(c byte) int {
	switch {
	case c >= '0' && c <= '9':
		return int(c - '0')
	case c >= 'a' && c <= 'f':
		return int(c-'a') + 10
	case c >= 'A' && c <= 'F':
		return int(c-'A') + 10
	}
	return -1
}

// hex4 reads 4 hex digits at i; returns -1 if they are not there.
func (p *parser) hex4(i int) (v int, upper bool) {
	if i+4 > len(p.b) {
		return -1, false
	}
	for k := 0; k < 4; k++ {
		h := hexVal(p.b[i+k])
		if h < 0 {
			return -1, false
		}
		if p.b[i+k] >= 'A' && p.b[i+k] <= 'F' {
			upper = true
		}
		v = v<<4 | h
	}
	return v, upper
}

func (p *parser) str() *Node {
	n := &Node{Kind: KStr, Off: p.i}
	b := p.b
	i := p.i + 1 // opening quote
	var out []byte
	for {
		if i >= len(b) {
			p.fail(i, "unterminated string")
		}
		c := b[i]
		switch {
		case c == '"':
			i++
			p.i = i
			n.Str = string(out)
			n.End = i
			p.doc.NStr++
			return n
		case c < 0x20:
			p.fail(i, "raw control character 0x%02x in string", c)
		case c == '\\':
			if i+1 >= len(b) {
				p.fail(i, "unterminated escape")
			}
			e := b[i+1]
			switch e {
			case '"':
				out = append(out, '"')
				n.Esc |= EscQuote
				i += 2
			case '\\':
				out = append(out, '\\')
				n.Esc |= EscBackslash
				i += 2
			case '/':
				out = append(out, '/')
				n.Esc |= EscSolidus
				i += 2
			case 'b':
				out = append(out, 0x08)
				n.Esc |= EscShort
				i += 2
			case 'f':
				out = append(out, 0x0c)
				n.Esc |= EscShort
				i += 2
			case 'n':
				out = append(out, 0x0a)
				n.Esc |= EscShort
				i += 2
			case 'r':
				out = append(out, 0x0d)
				n.Esc |= EscShort
				i += 2
			case 't':
				out = append(out, 0x09)
				n.Esc |= EscShort
				i += 2
			case 'u':
				u, up := p.hex4(i + 2)
				if u < 0 {
					p.fail(i, "bad \\u escape")
				}
				if up {
					n.Esc |= EscUUpperHex
				}
				i += 6
				switch {
				case u >= 0xD800 && u <= 0xDBFF:
					// high surrogate: a pair only if an escaped low follows
					if i+1 < len(b) && b[i] == '\\' && b[i+1] == 'u' {
						lo, up2 := p.hex4(i + 2)
						if lo >= 0xDC00 && lo <= 0xDFFF {
							if up2 {
								n.Esc |= EscUUpperHex
							}
							out = AppendRune(out, 0x10000+((u-0xD800)<<10)+(lo-0xDC00))
							n.Esc |= EscPair
							i += 6
							break
						}
					}
					out = AppendRune(out, 0xFFFD)
					n.Lone = true
					n.Esc |= EscLoneHigh
				case u >= 0xDC00 && u <= 0xDFFF:
					out = AppendRune(out, 0xFFFD)
					n.Lone = true
					n.Esc |= EscLoneLow
				default:
					out = AppendRune(out, u)
					if u < 0x20 {
						n.Esc |= EscUCtl
					} else {
						n.Esc |= EscUBMP
					}
				}
			default:
				p.fail(i, "bad escape \\%c", e)
			}
		case c < 0x80:
			if c == 0x7f {
				n.Esc |= RawDEL
			}
			out = append(out, c)
			i++
		default:
			sz := utf8SeqLen(b[i:])
			if sz == 0 {
				// not UTF-8: keep the byte, the document is then not a JSON text
				n.BadUTF8 = true
				n.Esc |= RawBadUTF8
				out = append(out, c)
				i++
				break
			}
			switch sz {
			case 2:
				n.Esc |= RawMulti2
			case 3:
				n.Esc |= RawMulti3
				if c == 0xE2 && b[i+1] == 0x80 && (b[i+2] == 0xA8 || b[i+2] == 0xA9) {
					n.Esc |= RawLineSep
				}
			case 4:
				n.Esc |= RawMulti4
			}
			out = append(out, b[i:i+sz]...)
			i += sz
		}
	}
}

// utf8SeqLen returns the length of the well-formed UTF-8 sequence at the
// start of b (Unicode table 3-7), or 0 if there is none.
func utf8SeqLen(b []byte) int {
	if len(b) == 0 {
		return 0
	}
	c := b[0]
	cont := func(i int, lo, hi byte) bool { return i < len(b) && b[i] >= lo && b[i] <= hi }
	switch {
	case c < 0x80:
		return 1
	case c >= 0xC2 && c <= 0xDF:
		if cont(1, 0x80, 0xBF) {
			return 2
		}
	case c == 0xE0:
		if cont(1, 0xA0, 0xBF) && cont(2, 0x80, 0xBF) {
			return 3
		}
	case (c >= 0xE1 && c <= 0xEC) || c == 0xEE || c == 0xEF:
		if cont(1, 0x80, 0xBF) && cont(2, 0x80, 0xBF) {
			return 3
		}
	case c == 0xED:
		if cont(1, 0x80, 0x9F) && cont(2, 0x80, 0xBF) {
			return 3
		}
	case c == 0xF0:
		if cont(1, 0x90, 0xBF) && cont(2, 0x80, 0xBF) && cont(3, 0x80, 0xBF) {
			return 4
		}
	case c >= 0xF1 && c <= 0xF3:
		if cont(1, 0x80, 0xBF) && cont(2, 0x80, 0xBF) && cont(3, 0x80, 0xBF) {
			return 4
		}
	case c == 0xF4:
		if cont(1, 0x80, 0x8F) && cont(2, 0x80, 0xBF) && cont(3, 0x80, 0xBF) {
			return 4
		}
	}
	return 0
}

// ValidUTF8 reports whether b is entirely well-formed UTF-8.
func ValidUTF8(b []byte) bool {
	for i := 0; i < len(b); {
		if b[i] < 0x80 {
			i++
			continue
		}
		n := utf8SeqLen(b[i:])
		if n == 0 {
			return false
		}
		i += n
	}
	return true
}

// AppendRune appends the UTF-8 encoding of the scalar value r.
func AppendRune(out []byte, r int) []byte {
	switch {
	case r < 0x80:
		return append(out, byte(r))
	case r < 0x800:
		return append(out, 0xC0|byte(r>>6), 0x80|byte(r&0x3F))
	case r < 0x10000:
		return append(out, 0xE0|byte(r>>12), 0x80|byte(r>>6&0x3F), 0x80|byte(r&0x3F))
	default:
		return append(out, 0xF0|byte(r>>18), 0x80|byte(r>>12&0x3F), 0x80|byte(r>>6&0x3F), 0x80|byte(r&0x3F))
	}
}

// ReplaceBadUTF8 returns s with every maximal run of bytes that are not part
// of a well-formed UTF-8 sequence replaced by ONE U+FFFD, and reports whether
// anything was replaced.  (How many U+FFFD a run becomes is a convention; the
// comparisons collapse runs on both sides, see CollapseFFFD.)
func ReplaceBadUTF8(s string) (string, bool) {
	b := []byte(s)
	if ValidUTF8(b) {
		return s, false
	}
	var out []byte
	inRun := false
	for i := 0; i < len(b); {
		n := utf8SeqLen(b[i:])
		if n == 0 {
			if !inRun {
				out = AppendRune(out, 0xFFFD)
				inRun = true
			}
			i++
			continue
		}
		inRun = false
		out = append(out, b[i:i+n]...)
		i += n
	}
	return string(out), true
}

// CollapseFFFD replaces every run of consecutive U+FFFD by a single one.
func CollapseFFFD(s string) string {
	const r = "\xef\xbf\xbd"
	var out []byte
	for i := 0; i < len(s); {
		if i+3 <= len(s) && s[i:i+3] == r {
			out = append(out, r...)
			for i+3 <= len(s) && s[i:i+3] == r {
				i += 3
			}
			continue
		}
		out = append(out, s[i])
		i++
	}
	return string(out)
}

// UTF16Less compares two well-formed UTF-8 strings by UTF-16 code units (the
// other common meaning of "sorted keys"); bytewise comparison is code point
// order.
func UTF16Less(a, b string) bool {
	ua, ub := utf16Units(a), utf16Units(b)
	for i := 0; i < len(ua) && i < len(ub); i++ {
		if ua[i] != ub[i] {
			return ua[i] < ub[i]
		}
	}
	return len(ua) < len(ub)
}

func utf16Units(s string) []uint16 {
	var out []uint16
	b := []byte(s)
	for i := 0; i < len(b); {
		n := utf8SeqLen(b[i:])
		var r int
		switch n {
		case 0:
			r, n = 0xFFFD, 1
		case 1:
			r = int(b[i])
		case 2:
			r = int(b[i]&0x1F)<<6 | int(b[i+1]&0x3F)
		case 3:
			r = int(b[i]&0x0F)<<12 | int(b[i+1]&0x3F)<<6 | int(b[i+2]&0x3F)
		case 4:
			r = int(b[i]&0x07)<<18 | int(b[i+1]&0x3F)<<12 | int(b[i+2]&0x3F)<<6 | int(b[i+3]&0x3F)
		}
		if r >= 0x10000 {
			r -= 0x10000
			out = append(out, uint16(0xD800+(r>>10)), uint16(0xDC00+(r&0x3FF)))
		} else {
			out = append(out, uint16(r))
		}
		i += n
	}
	return out
}
