package c13x

import (
	"fmt"
	"strings"
)

// The SIZE dimension.  Every other document of the workload is a few dozen
// bytes long, so whatever a decoder does per buffer-full -- refilling a read
// buffer in the middle of a value, of an escape, of a whitespace run; looking
// only at what has been read so far -- never shows.  A sized document is an
// ordinary generated document (valid, or with one named near-miss mutation
// applied) in which ONE place was made long with insignificant material
// (whitespace in a gap, characters of a string or member name, digits of a
// number, elements of an array, members of an object), by exactly the amount
// that puts a chosen anchor -- the defect, the end of the long place, the end
// of the top-level value, the end of the document -- at a buffer boundary plus
// or minus a few bytes.

// SizeBoundaries are the buffer sizes a decoder is likely to work in: the
// powers of two, and 512*(2^k-1) -- the cumulative amount a buffer that grows
// by "double plus 512" (encoding/json's Decoder) has read after k refills.
var SizeBoundaries = []int{64, 128, 256, 512, 1024, 1536, 2048, 3584, 4096, 7680, 8192, 15872, 16384, 32256, 32768, 65024, 65536}

// maxNumberFill bounds how long a number literal is made (the oracle reads a
// literal with exact rational arithmetic, which is quadratic in its length).
const maxNumberFill = 8200

// SizedDoc is one sized document and how it was built.
type SizedDoc struct {
	Doc       []byte
	Base      string // rich | generated | scalar
	Mutation  string // "" = none (the document is an RFC 8259 text by construction)
	Filler    string // ws-leading | ws-inside | ws-trailing | long-string | long-key | long-number | long-array | long-object
	Anchor    string // defect | filler-end | value-end | total-length
	Boundary  int
	Delta     int // the anchor sits at offset Boundary+Delta
	DefectOff int // offset of the first byte the mutation changed; -1 without mutation
	FillOff   int // where the inserted material starts
	FillLen   int
}

// Place says where the defect sits relative to the boundary.
func (s SizedDoc) Place() string {
	switch {
	case s.DefectOff < 0:
		return "valid"
	case s.DefectOff < s.Boundary-3:
		return "defect-before-boundary"
	case s.DefectOff <= s.Boundary+3:
		return "defect-at-boundary"
	}
	return "defect-after-boundary"
}

type sizeSite struct {
	kind       string
	start, end int // the token's text in the (mutated) document
	pre        bool
	text       string
	emptyCont  bool // "[" / "{" of an empty container
}

func commonPrefix(a, b []byte) int {
	n := 0
	for n < len(a) && n < len(b) && a[n] == b[n] {
		n++
	}
	return n
}

func commonSuffix(a, b []byte, max int) int {
	n := 0
	for n < max && a[len(a)-1-n] == b[len(b)-1-n] {
		n++
	}
	return n
}

// GenSized builds one sized document; mutate says whether a near-miss mutation
// of the catalogue is applied.  ok is false when no attempt produced one (the
// caller skips the case).
func GenSized(r Rand, mutate bool) (sd SizedDoc, ok bool) {
	for tries := 0; tries < 16; tries++ {
		if sd, ok = genSizedOnce(r, mutate); ok {
			return sd, true
		}
	}
	return sd, false
}

func genSizedOnce(r Rand, mutate bool) (sd SizedDoc, ok bool) {
	var toks []Tok
	switch k := r.Intn(20); {
	case k < 11:
		toks, sd.Base = GenRichDoc(r, GenOpts{MaxDepth: 2, MaxWidth: 3}), "rich"
	case k < 17:
		toks, sd.Base = GenDoc(r, GenOpts{MaxDepth: 2, MaxWidth: 3}), "generated"
	default:
		var t Tok
		switch r.Intn(3) {
		case 0:
			t = Tok{TNum, GenNumber(r, nil)}
		case 1:
			t = Tok{TStr, GenString(r, nil)}
		default:
			t = Tok{TLit, pick(r, []string{"true", "false", "null"})}
		}
		toks, sd.Base = []Tok{{TWs, pick(r, wsChoices)}, t, {TWs, pick(r, wsChoices)}}, "scalar"
	}
	ob := Join(toks)
	mb := ob
	sd.DefectOff = -1
	if mutate {
		m := pick(r, Mutations)
		b, name := m.Apply(r, toks)
		if b == nil || name == "" {
			return sd, false
		}
		mb, sd.Mutation = b, name
	}
	p, s := len(ob), 0
	if mutate {
		p = commonPrefix(ob, mb)
		lim := len(ob)
		if len(mb) < lim {
			lim = len(mb)
		}
		s = commonSuffix(ob, mb, lim-p)
		sd.DefectOff = p
	}
	shift := len(mb) - len(ob)

	// the places that can be made long: tokens the mutation left untouched
	var sites []sizeSite
	valueEnd := 0
	off := 0
	lastSolid := -1
	for i, t := range toks {
		if t.Kind != TWs {
			lastSolid = i
		}
	}
	for i, t := range toks {
		a, b := off, off+len(t.Text)
		off = b
		if i == lastSolid {
			valueEnd = b
		}
		st := sizeSite{text: t.Text}
		switch {
		case b <= p:
			st.pre, st.start, st.end = true, a, b
		case mutate && a >= len(ob)-s:
			st.start, st.end = a+shift, b+shift
		default:
			continue
		}
		switch t.Kind {
		case TWs:
			switch {
			case i == 0:
				st.kind = "ws-leading"
			case i > lastSolid:
				st.kind = "ws-trailing"
			default:
				st.kind = "ws-inside"
			}
		case TStr:
			st.kind = "long-string"
		case TKey:
			st.kind = "long-key"
		case TNum:
			st.kind = "long-number"
		case TPunct:
			n := nextSolid(toks, i)
			switch t.Text {
			case "[":
				st.kind = "long-array"
				st.emptyCont = n >= 0 && toks[n].Kind == TPunct && toks[n].Text == "]"
			case "{":
				st.kind = "long-object"
				st.emptyCont = n >= 0 && toks[n].Kind == TPunct && toks[n].Text == "}"
			default:
				continue
			}
		default:
			continue
		}
		if len(st.text) < 2 && (st.kind == "long-string" || st.kind == "long-key") {
			continue
		}
		sites = append(sites, st)
	}
	// the gaps before and after the whole document always exist
	have := map[string]bool{}
	for _, st := range sites {
		have[st.kind] = true
	}
	if !have["ws-leading"] {
		sites = append(sites, sizeSite{kind: "ws-leading", pre: true})
	}
	if !have["ws-trailing"] && mutate {
		sites = append(sites, sizeSite{kind: "ws-trailing", start: len(mb), end: len(mb)})
	}

	// the anchor
	if mutate {
		switch k := r.Intn(100); {
		case k < 50:
			sd.Anchor = "defect"
		case k < 75:
			sd.Anchor = "filler-end"
		default:
			sd.Anchor = "total-length"
		}
	} else {
		switch k := r.Intn(100); {
		case k < 35:
			sd.Anchor = "value-end"
		case k < 65:
			sd.Anchor = "filler-end"
		default:
			sd.Anchor = "total-length"
		}
	}
	var cands []sizeSite
	for _, st := range sites {
		switch sd.Anchor {
		case "defect":
			if !st.pre {
				continue
			}
		case "value-end":
			if st.kind == "ws-trailing" {
				continue
			}
		}
		cands = append(cands, st)
	}
	if len(cands) == 0 {
		return sd, false
	}
	// the kind first (a document has many inner gaps and one trailing gap)
	var kinds []string
	seen := map[string]bool{}
	for _, st := range cands {
		if !seen[st.kind] {
			seen[st.kind] = true
			kinds = append(kinds, st.kind)
		}
	}
	kind := pick(r, kinds)
	var ofKind []sizeSite
	for _, st := range cands {
		if st.kind == kind {
			ofKind = append(ofKind, st)
		}
	}
	st := pick(r, ofKind)
	sd.Filler = st.kind

	cur := 0
	switch sd.Anchor {
	case "defect":
		cur = p
	case "filler-end":
		cur = st.end
	case "value-end":
		cur = valueEnd
	default:
		cur = len(mb)
	}
	// delta, then a boundary that leaves something to insert
	if chance(r, 17, 20) {
		sd.Delta = r.Intn(7) - 3
	} else {
		sd.Delta = 4 + r.Intn(37)
		if chance(r, 1, 2) {
			sd.Delta = -sd.Delta
		}
	}
	var bs []int
	for _, b := range SizeBoundaries {
		if b+sd.Delta-cur < 8 {
			continue
		}
		if st.kind == "long-number" && b+sd.Delta-cur > maxNumberFill {
			continue
		}
		bs = append(bs, b)
	}
	if len(bs) == 0 {
		return sd, false
	}
	// small boundaries are cheap and are where most buffers live
	var small, mid, large []int
	for _, b := range bs {
		switch {
		case b <= 4096:
			small = append(small, b)
		case b <= 16384:
			mid = append(mid, b)
		default:
			large = append(large, b)
		}
	}
	switch k := r.Intn(100); {
	case k < 76 && len(small) > 0:
		sd.Boundary = pick(r, small)
	case k < 93 && len(mid) > 0:
		sd.Boundary = pick(r, mid)
	case len(large) > 0:
		sd.Boundary = pick(r, large)
	default:
		sd.Boundary = pick(r, bs)
	}
	n := sd.Boundary + sd.Delta - cur

	// the material
	insOff, fill := st.start, ""
	switch st.kind {
	case "ws-leading", "ws-inside", "ws-trailing":
		fill = wsFill(r, n)
		if chance(r, 1, 2) {
			insOff = st.end
		}
	case "long-string", "long-key":
		fill = strFill(r, n)
		insOff = st.start + 1
	case "long-number":
		var at int
		fill, at, ok = numFill(r, st.text, n)
		if !ok {
			return sd, false
		}
		insOff = st.start + at
	case "long-array":
		fill, ok = arrFill(r, n, st.emptyCont)
		if !ok {
			return sd, false
		}
		insOff = st.end
	case "long-object":
		fill, ok = objFill(r, n, st.emptyCont)
		if !ok {
			return sd, false
		}
		insOff = st.end
	}
	if len(fill) != n {
		panic(fmt.Sprintf("c13x: %s filler of %d bytes has %d", st.kind, n, len(fill)))
	}
	doc := make([]byte, 0, len(mb)+n)
	doc = append(doc, mb[:insOff]...)
	doc = append(doc, fill...)
	doc = append(doc, mb[insOff:]...)
	sd.Doc, sd.FillOff, sd.FillLen = doc, insOff, n
	if mutate && st.pre {
		sd.DefectOff = p + n
	}
	return sd, true
}

// wsFill returns n bytes of insignificant whitespace.
func wsFill(r Rand, n int) string {
	switch r.Intn(6) {
	case 0:
		return strings.Repeat(" ", n)
	case 1:
		return strings.Repeat("\n", n)
	case 2:
		return strings.Repeat("\t", n)
	case 3:
		s := strings.Repeat("\r\n", n/2)
		if n%2 == 1 {
			s += " "
		}
		return s
	case 4:
		// indented lines
		line := "\n" + strings.Repeat(" ", 1+r.Intn(40))
		s := strings.Repeat(line, n/len(line)+1)
		return s[:n]
	}
	b := make([]byte, n)
	for i := range b {
		b[i] = " \n\t\r"[r.Intn(4)]
	}
	return string(b)
}

// strFill returns n bytes that may stand inside a JSON string: ASCII, with
// escapes and multi-byte characters sprinkled in (so that now and then one of
// them straddles the boundary).
func strFill(r Rand, n int) string {
	bu := "\\" + "u" // a backslash-u escape introducer
	pieces := []string{"\\n", "\\\"", "\\\\", "\\/", "\\t", "\xc3\xa9", "\xe2\x82\xac", "\xf0\x9f\x98\x80", bu + "00e9", bu + "20AC", bu + "d83d" + bu + "de00", "\xe2\x80\xa8", bu + "0000"}
	every := 0 // plain ASCII
	switch r.Intn(4) {
	case 1:
		every = 40
	case 2:
		every = 7
	case 3:
		every = 1 // nothing but escapes / multi-byte characters
	}
	var sb strings.Builder
	sb.Grow(n)
	rem := n
	for rem > 0 {
		if every > 0 && r.Intn(every) == 0 {
			p := pick(r, pieces)
			if len(p) <= rem {
				sb.WriteString(p)
				rem -= len(p)
				continue
			}
		}
		k := 1
		if every != 1 {
			k = 1 + r.Intn(24)
		}
		if k > rem {
			k = rem
		}
		for j := 0; j < k; j++ {
			sb.WriteByte("abcdefghijklmnopqrstuvwxyz0123456789 _-.:,[]{}"[r.Intn(46)])
		}
		rem -= k
	}
	return sb.String()
}

// numFill makes the number literal lit n bytes longer with digits; at is the
// offset in lit where they go.
func numFill(r Rand, lit string, n int) (fill string, at int, ok bool) {
	i := 0
	if i < len(lit) && lit[i] == '-' {
		i++
	}
	ds := i
	for i < len(lit) && isDigit(lit[i]) {
		i++
	}
	if i == ds {
		return "", 0, false
	}
	if lit[ds] != '0' && chance(r, 3, 10) {
		// a longer integer part
		return digits(r, n, false), ds + 1, true
	}
	if i < len(lit) && lit[i] == '.' {
		return digits(r, n, false), i + 1, true
	}
	if n < 2 {
		return "", 0, false
	}
	return "." + digits(r, n-1, false), i, true
}

var arrUnits = []string{"1,", "0,", "-1,", `"",`, "{},", "[],", "null,", "1.5,", "true,", `"a",`, "1e2,"}

func longStr(r Rand, u int) string {
	return `"` + strings.Repeat("x", u+r.Intn(u)) + `"`
}

// arrFill returns elements for the inside of an array, n bytes in all: "e,e,e,"
// to go in front of the first element of a non-empty array, "e,e,e" for an
// empty one.  The element count stays below ~1500.
func arrFill(r Rand, n int, empty bool) (string, bool) {
	if empty {
		s, ok := arrFill(r, n+1, false)
		if !ok {
			return "", false
		}
		return s[:len(s)-1], true
	}
	if n < 2 {
		return "", false
	}
	if n == 2 {
		return "1,", true
	}
	u := n / 1200
	var sb strings.Builder
	sb.Grow(n)
	rem := n
	for {
		e := pick(r, arrUnits)
		if u >= 4 {
			e = longStr(r, u) + ","
		}
		if rem < len(e)+3 {
			break
		}
		sb.WriteString(e)
		rem -= len(e)
	}
	sb.WriteString(`"` + strings.Repeat("x", rem-3) + `",`)
	return sb.String(), true
}

// objFill is arrFill for the members of an object (names f0, f1, ... and one
// z-name that takes up the remainder).
func objFill(r Rand, n int, empty bool) (string, bool) {
	if empty {
		s, ok := objFill(r, n+1, false)
		if !ok {
			return "", false
		}
		return s[:len(s)-1], true
	}
	if n < 6 {
		return "", false
	}
	u := n / 1200
	var sb strings.Builder
	sb.Grow(n)
	rem := n
	for i := 0; ; i++ {
		v := pick(r, arrUnits)
		if u >= 4 {
			v = longStr(r, u) + ","
		}
		e := fmt.Sprintf(`"f%d":%s`, i, v)
		if rem < len(e)+6 {
			break
		}
		sb.WriteString(e)
		rem -= len(e)
	}
	sb.WriteString(`"z` + strings.Repeat("z", rem-6) + `":0,`)
	return sb.String(), true
}
