package c13x

import (
	"math"
	"math/big"
)

// Num is the arbitrary-precision reading of a JSON number literal.
type Num struct {
	Lit       string
	Neg       bool
	IntShaped bool     // no '.', no exponent (the "-0" question is left to the caller)
	HasFrac   bool     // has '.'
	HasExp    bool     // has e/E
	Mant      *big.Int // all digits of int and frac part (non-negative)
	Exp10     int      // value = ±Mant * 10^Exp10 (saturated at ±ExpSat)
	Zero      bool     // Mant == 0
}

// ExpSat is where decimal exponents saturate; anything near it is far outside
// float64 anyway.
const ExpSat = 1 << 30

// ParseNum reads a literal that the recognizer has already accepted.  ok is
// false if lit is not a JSON number.
func ParseNum(lit string) (n Num, ok bool) {
	n.Lit = lit
	i := 0
	if i < len(lit) && lit[i] == '-' {
		n.Neg = true
		i++
	}
	ds := i
	for i < len(lit) && isDigit(lit[i]) {
		i++
	}
	if i == ds || (lit[ds] == '0' && i-ds > 1) {
		return n, false
	}
	digits := lit[ds:i]
	fracLen := 0
	if i < len(lit) && lit[i] == '.' {
		n.HasFrac = true
		i++
		fs := i
		for i < len(lit) && isDigit(lit[i]) {
			i++
		}
		if i == fs {
			return n, false
		}
		digits += lit[fs:i]
		fracLen = i - fs
	}
	exp := 0
	if i < len(lit) && (lit[i] == 'e' || lit[i] == 'E') {
		n.HasExp = true
		i++
		eneg := false
		if i < len(lit) && (lit[i] == '+' || lit[i] == '-') {
			eneg = lit[i] == '-'
			i++
		}
		es := i
		for i < len(lit) && isDigit(lit[i]) {
			if exp < ExpSat {
				exp = exp*10 + int(lit[i]-'0')
			}
			i++
		}
		if i == es {
			return n, false
		}
		if exp > ExpSat {
			exp = ExpSat
		}
		if eneg {
			exp = -exp
		}
	}
	if i != len(lit) {
		return n, false
	}
	n.IntShaped = !n.HasFrac && !n.HasExp
	n.Mant, _ = new(big.Int).SetString(digits, 10)
	n.Zero = n.Mant.Sign() == 0
	n.Exp10 = exp - fracLen
	return n, true
}

// Pow10 returns 10^k.
func Pow10(k int) *big.Int { return pow10(k) }

func pow10(k int) *big.Int { return new(big.Int).Exp(big.NewInt(10), big.NewInt(int64(k)), nil) }

// FloatClass says how a literal relates to the float64 range.
type FloatClass int

const (
	FloatFinite   FloatClass = iota
	FloatOverflow            // rounds to an infinity: no float64 holds it
)

// Nearest returns the float64 nearest to the literal's exact value (round to
// nearest, ties to even), computed with exact rational arithmetic.  For a zero
// mantissa the sign of the literal is kept.
func (n Num) Nearest() (float64, FloatClass) {
	if n.Zero {
		if n.Neg {
			return math.Copysign(0, -1), FloatFinite
		}
		return 0, FloatFinite
	}
	nd := len(n.Mant.String())
	m := nd + n.Exp10 - 1 // value in [10^m, 10^(m+1))
	sign := 1.0
	if n.Neg {
		sign = -1
	}
	if m > 309 {
		return math.Inf(int(sign)), FloatOverflow
	}
	if m < -330 {
		return math.Copysign(0, sign), FloatFinite
	}
	r := new(big.Rat)
	if n.Exp10 >= 0 {
		r.SetInt(new(big.Int).Mul(n.Mant, pow10(n.Exp10)))
	} else {
		r.SetFrac(n.Mant, pow10(-n.Exp10))
	}
	if n.Neg {
		r.Neg(r)
	}
	f, _ := r.Float64()
	if math.IsInf(f, 0) {
		return f, FloatOverflow
	}
	if f == 0 {
		f = math.Copysign(0, sign)
	}
	return f, FloatFinite
}

// Rat returns the exact value; ok is false when the exponent is so large that
// the exact value is not worth materialising (|Exp10| > 5000).
func (n Num) Rat() (*big.Rat, bool) {
	if n.Exp10 > 5000 || n.Exp10 < -5000 {
		return nil, false
	}
	r := new(big.Rat)
	if n.Exp10 >= 0 {
		r.SetInt(new(big.Int).Mul(n.Mant, pow10(n.Exp10)))
	} else {
		r.SetFrac(n.Mant, pow10(-n.Exp10))
	}
	if n.Neg {
		r.Neg(r)
	}
	return r, true
}

var (
	maxInt64 = new(big.Int).SetUint64(1<<63 - 1)
	minInt64 = new(big.Int).Neg(new(big.Int).SetUint64(1 << 63))
)

// Int64 returns the value of an integer-shaped literal when it fits int64.
func (n Num) Int64() (int64, bool) {
	if !n.IntShaped {
		return 0, false
	}
	v := new(big.Int).Set(n.Mant)
	if n.Neg {
		v.Neg(v)
	}
	if v.Cmp(maxInt64) > 0 || v.Cmp(minInt64) < 0 {
		return 0, false
	}
	return v.Int64(), true
}

// Tri is a three-valued answer.
type Tri int

const (
	No Tri = iota
	Yes
	Unsure
)

func (t Tri) String() string { return [...]string{"no", "yes", "unsure"}[t] }

// CanonicalFloatText decides whether an integer-shaped literal that does NOT
// fit int64 is "already canonical float text" in the sense of docs/lang.md:
// the plain-digit rendering json:dump gives to the float it denotes, i.e. the
// ES6 Number::toString form — the shortest digit string that still rounds to
// that float (closest one if several), padded with zeros, plain digits only
// below 1e21.
//
//	Yes    – it is the unique closest shortest representation
//	No     – a shorter digit string rounds to the same float, or |x| >= 1e21
//	         (canonical text would use an exponent), or it overflows
//	Unsure – shortest, but another candidate of the same length is as close or
//	         closer (conventions differ; not judged)
func (n Num) CanonicalFloatText() (Tri, float64) {
	if !n.IntShaped || n.Zero {
		return No, 0
	}
	N := n.Mant
	if N.Cmp(pow10(21)) >= 0 {
		return No, 0
	}
	fAbs, _ := new(big.Rat).SetInt(N).Float64()
	if math.IsInf(fAbs, 0) || fAbs < 1 {
		return No, 0
	}
	toInt := func(f float64) *big.Int {
		// f is an integer-valued float64 here (>= 2^53 in every use that
		// matters; smaller values still convert exactly through big.Float)
		bi, _ := new(big.Float).SetFloat64(f).Int(nil)
		return bi
	}
	if fAbs < 1<<53 {
		// cannot happen for a literal that does not fit int64
		return Unsure, fAbs
	}
	F := toInt(fAbs)
	P := toInt(math.Nextafter(fAbs, 0))
	X := toInt(math.Nextafter(fAbs, math.Inf(1)))
	lo2 := new(big.Int).Add(P, F) // 2*lower midpoint
	hi2 := new(big.Int).Add(F, X) // 2*upper midpoint
	even := math.Float64bits(fAbs)&1 == 0
	inside := func(c *big.Int) bool {
		c2 := new(big.Int).Lsh(c, 1)
		a, b := c2.Cmp(lo2), c2.Cmp(hi2)
		if even {
			return a >= 0 && b <= 0
		}
		return a > 0 && b < 0
	}
	if !inside(N) {
		// N does not round to F?  (cannot happen: F is nearest(N))
		return Unsure, fAbs
	}
	// trailing zeros
	s := N.String()
	z := 0
	for z < len(s)-1 && s[len(s)-1-z] == '0' {
		z++
	}
	// is there a multiple of 10^(z+1) inside the interval?  -> shorter exists
	u := pow10(z + 1)
	u2 := new(big.Int).Lsh(u, 1)
	// smallest m with 2*m*u >= lo2
	m := new(big.Int).Div(new(big.Int).Add(lo2, new(big.Int).Sub(u2, big.NewInt(1))), u2)
	for k := 0; k < 3; k++ {
		c := new(big.Int).Mul(m, u)
		if c.Sign() > 0 && inside(c) {
			return No, fAbs
		}
		m.Add(m, big.NewInt(1))
	}
	// same length candidates: multiples of 10^z inside the interval
	w := pow10(z)
	dN := new(big.Int).Abs(new(big.Int).Sub(N, F))
	for _, step := range []int64{-2, -1, 1, 2} {
		c := new(big.Int).Add(N, new(big.Int).Mul(w, big.NewInt(step)))
		if c.Sign() <= 0 || !inside(c) {
			continue
		}
		if len(c.String()) != len(s) {
			continue
		}
		dc := new(big.Int).Abs(new(big.Int).Sub(c, F))
		if dc.Cmp(dN) <= 0 {
			return Unsure, fAbs
		}
	}
	return Yes, fAbs
}
