package c13x

import (
	"strings"
)

// Mutation is one near-miss rewrite of a valid document.  Apply returns the
// mutated bytes and the precise name of what was done (the finding key).
type Mutation struct {
	Name  string
	Apply func(r Rand, toks []Tok) ([]byte, string)
}

func idxOf(toks []Tok, pred func(i int, t Tok) bool) []int {
	var out []int
	for i, t := range toks {
		if pred(i, t) {
			out = append(out, i)
		}
	}
	return out
}

func kindIs(k TokKind) func(int, Tok) bool { return func(_ int, t Tok) bool { return t.Kind == k } }
func punctIs(s string) func(int, Tok) bool {
	return func(_ int, t Tok) bool { return t.Kind == TPunct && t.Text == s }
}

func clone(toks []Tok) []Tok { return append([]Tok(nil), toks...) }

func insertAt(toks []Tok, i int, t Tok) []Tok {
	out := make([]Tok, 0, len(toks)+1)
	out = append(out, toks[:i]...)
	out = append(out, t)
	return append(out, toks[i:]...)
}

// prevSolid returns the index of the closest non-whitespace token before i.
func prevSolid(toks []Tok, i int) int {
	for j := i - 1; j >= 0; j-- {
		if toks[j].Kind != TWs {
			return j
		}
	}
	return -1
}

func nextSolid(toks []Tok, i int) int {
	for j := i + 1; j < len(toks); j++ {
		if toks[j].Kind != TWs {
			return j
		}
	}
	return -1
}

// replaceOne replaces one token chosen among those matching pred.
func replaceOne(r Rand, toks []Tok, pred func(int, Tok) bool, text string) []byte {
	ix := idxOf(toks, pred)
	if len(ix) == 0 {
		return nil
	}
	t := clone(toks)
	t[pick(r, ix)].Text = text
	return Join(t)
}

func named(name string, choices []struct{ n, s string }, kind TokKind) Mutation {
	return Mutation{name, func(r Rand, toks []Tok) ([]byte, string) {
		c := pick(r, choices)
		return replaceOne(r, toks, kindIs(kind), c.s), name + ":" + c.n
	}}
}

type ns = struct{ n, s string }

func gapInsert(name string, choices []ns, allowFirst bool) Mutation {
	return Mutation{name, func(r Rand, toks []Tok) ([]byte, string) {
		c := pick(r, choices)
		ix := idxOf(toks, func(i int, t Tok) bool { return t.Kind == TWs && (allowFirst || i > 0) })
		if len(ix) == 0 {
			return nil, ""
		}
		t := clone(toks)
		i := pick(r, ix)
		if chance(r, 1, 2) {
			t[i].Text = t[i].Text + c.s
		} else {
			t[i].Text = c.s + t[i].Text
		}
		return Join(t), name + ":" + c.n
	}}
}

// Mutations is the near-miss catalogue.
var Mutations = []Mutation{
	{"trailing-comma-array", func(r Rand, toks []Tok) ([]byte, string) {
		ix := idxOf(toks, func(i int, t Tok) bool {
			if t.Kind != TPunct || t.Text != "]" {
				return false
			}
			p := prevSolid(toks, i)
			return p >= 0 && !(toks[p].Kind == TPunct && toks[p].Text == "[")
		})
		if len(ix) == 0 {
			return nil, ""
		}
		return Join(insertAt(toks, pick(r, ix), Tok{TPunct, ","})), "trailing-comma-array"
	}},
	{"trailing-comma-object", func(r Rand, toks []Tok) ([]byte, string) {
		ix := idxOf(toks, func(i int, t Tok) bool {
			if t.Kind != TPunct || t.Text != "}" {
				return false
			}
			p := prevSolid(toks, i)
			return p >= 0 && !(toks[p].Kind == TPunct && toks[p].Text == "{")
		})
		if len(ix) == 0 {
			return nil, ""
		}
		return Join(insertAt(toks, pick(r, ix), Tok{TPunct, ","})), "trailing-comma-object"
	}},
	{"lone-comma-in-empty", func(r Rand, toks []Tok) ([]byte, string) {
		if chance(r, 1, 2) {
			return []byte("[,]"), "lone-comma-in-empty:array"
		}
		return []byte("{,}"), "lone-comma-in-empty:object"
	}},
	{"leading-comma", func(r Rand, toks []Tok) ([]byte, string) {
		ix := idxOf(toks, func(i int, t Tok) bool { return t.Kind == TPunct && (t.Text == "[" || t.Text == "{") })
		if len(ix) == 0 {
			return nil, ""
		}
		i := pick(r, ix)
		return Join(insertAt(toks, i+1, Tok{TPunct, ","})), "leading-comma:" + map[string]string{"[": "array", "{": "object"}[toks[i].Text]
	}},
	{"double-comma", func(r Rand, toks []Tok) ([]byte, string) {
		ix := idxOf(toks, punctIs(","))
		if len(ix) == 0 {
			return nil, ""
		}
		return Join(insertAt(toks, pick(r, ix), Tok{TPunct, ","})), "double-comma"
	}},
	{"missing-comma", func(r Rand, toks []Tok) ([]byte, string) {
		return replaceOne(r, toks, punctIs(","), " "), "missing-comma"
	}},
	{"missing-colon", func(r Rand, toks []Tok) ([]byte, string) {
		return replaceOne(r, toks, punctIs(":"), " "), "missing-colon"
	}},
	{"double-colon", func(r Rand, toks []Tok) ([]byte, string) {
		return replaceOne(r, toks, punctIs(":"), "::"), "double-colon"
	}},
	{"colon-variant", func(r Rand, toks []Tok) ([]byte, string) {
		c := pick(r, []ns{{"equals", "="}, {"arrow", "=>"}, {"semicolon", ";"}, {"comma", ","}})
		return replaceOne(r, toks, punctIs(":"), c.s), "colon-variant:" + c.n
	}},
	{"comma-variant", func(r Rand, toks []Tok) ([]byte, string) {
		c := pick(r, []ns{{"semicolon", ";"}, {"colon", ":"}, {"newline", "\n"}, {"pipe", "|"}})
		return replaceOne(r, toks, punctIs(","), c.s), "comma-variant:" + c.n
	}},
	{"unquoted-key", func(r Rand, toks []Tok) ([]byte, string) {
		c := pick(r, []ns{{"identifier", "key"}, {"dollar", "$k"}, {"digit-start", "1k"}, {"dashed", "a-b"}})
		return replaceOne(r, toks, kindIs(TKey), c.s), "unquoted-key:" + c.n
	}},
	{"single-quoted", func(r Rand, toks []Tok) ([]byte, string) {
		if chance(r, 1, 2) {
			return replaceOne(r, toks, kindIs(TKey), "'k'"), "single-quoted:key"
		}
		return replaceOne(r, toks, kindIs(TStr), "'v'"), "single-quoted:value"
	}},
	{"backtick-quoted", func(r Rand, toks []Tok) ([]byte, string) {
		return replaceOne(r, toks, kindIs(TStr), "`v`"), "backtick-quoted"
	}},
	named("non-finite-literal", []ns{{"NaN", "NaN"}, {"nan", "nan"}, {"Infinity", "Infinity"}, {"-Infinity", "-Infinity"}, {"+Infinity", "+Infinity"}, {"inf", "inf"}, {"-inf", "-inf"}, {"-NaN", "-NaN"}, {"1e+Infinity", "1e+Infinity"}}, TNum),
	named("number-spelling", []ns{
		{"leading-plus", "+1"}, {"leading-plus-frac", "+1.5"}, {"bare-fraction", ".5"}, {"neg-bare-fraction", "-.5"},
		{"trailing-dot", "1."}, {"trailing-dot-neg", "-1."}, {"dot-then-exp", "1.e5"}, {"zero-dot", "0."},
		{"leading-zero", "01"}, {"neg-leading-zero", "-01"}, {"double-zero", "00"}, {"leading-zero-frac", "012.5"}, {"neg-double-zero", "-00"}, {"leading-zero-exp", "00e1"},
		{"empty-exp", "1e"}, {"empty-exp-plus", "1e+"}, {"empty-exp-minus", "1E-"}, {"exp-frac", "1e5.5"}, {"double-exp", "1e5e5"}, {"exp-only", "e5"}, {"exp-sign-twice", "1e+-5"},
		{"hex", "0x10"}, {"hex-upper", "0XFF"}, {"octal-prefix", "0o17"}, {"binary-prefix", "0b11"},
		{"underscore", "1_000"}, {"thousands-space", "1 000"}, {"suffix-letter", "12a"}, {"suffix-f", "1.0f"}, {"suffix-L", "12L"}, {"suffix-n", "12n"},
		{"double-dot", "1.5.2"}, {"double-dot-adjacent", "1..5"},
		{"minus-alone", "-"}, {"minus-space", "- 1"}, {"double-minus", "--1"}, {"plus-minus", "+-1"}, {"minus-plus", "-+1"},
		{"fraction-slash", "1/2"}, {"arabic-indic-digits", "\u0661\u0662"}, {"fullwidth-digit", "\uff11"}, {"minus-sign-u2212", "\u22121"},
		{"percent", "50%"}, {"dot-alone", "."}, {"comma-decimal", "1,5e"},
	}, TNum),
	named("bad-escape", []ns{
		{"x-hex", `"a\x41b"`}, {"bell", `"\a"`}, {"vtab", `"\v"`}, {"single-quote", `"\'"`}, {"zero", `"\0"`}, {"esc-e", `"\e"`},
		{"u-short", `"\u12"`}, {"u-short-3", `"\u123"`}, {"u-bad-hex", `"\u12G4"`}, {"u-upper", `"\U00000041"`}, {"u-braces", `"\u{41}"`},
		{"u-plus", `"\u+041"`}, {"u-minus", `"\u-041"`}, {"u-space", `"\u 041"`}, {"space-after-backslash", `"\ n"`}, {"backslash-newline", "\"\\\n\""},
		{"octal", `"\101"`}, {"upper-N", `"\N"`}, {"upper-T", `"\T"`}, {"pair-second-short", `"\ud83d\ude0"`}, {"u-empty", `"\u"`},
		{"backslash-high-byte", "\"\\\xc3\xa9\""}, {"backslash-space", `"\ "`},
	}, TStr),
	named("string-termination", []ns{
		{"unterminated", `"abc`}, {"backslash-before-close", `"abc\"`}, {"stray-quote-inside", `"ab"c"`}, {"only-open-quote", `"`},
		{"unterminated-after-escape", `"abc\\\"`}, {"missing-open-quote", `abc"`},
	}, TStr),
	{"raw-control-in-string", func(r Rand, toks []Tok) ([]byte, string) {
		ix := idxOf(toks, func(_ int, t Tok) bool { return t.Kind == TStr || t.Kind == TKey })
		if len(ix) == 0 {
			return nil, ""
		}
		c := byte(r.Intn(0x20))
		name := "other"
		switch c {
		case 0:
			name = "nul"
		case '\n':
			name = "newline"
		case '\t':
			name = "tab"
		case '\r':
			name = "cr"
		case 0x1f:
			name = "us-1f"
		case 0x08, 0x0c:
			name = "bs-ff"
		}
		t := clone(toks)
		i := pick(r, ix)
		s := t[i].Text
		// insert at a position that is not inside an escape: right after the
		// opening quote or right before the closing one
		if chance(r, 1, 2) {
			s = s[:1] + string([]byte{c}) + s[1:]
		} else {
			s = s[:len(s)-1] + string([]byte{c}) + s[len(s)-1:]
			// a string ending in a backslash escape would swallow it; the
			// recognizer decides either way
		}
		t[i].Text = s
		where := "value"
		if t[i].Kind == TKey {
			where = "key"
		}
		return Join(t), "raw-control-in-string:" + name + ":" + where
	}},
	{"truncated", func(r Rand, toks []Tok) ([]byte, string) {
		b := Join(toks)
		if len(b) < 2 {
			return nil, ""
		}
		return b[:1+r.Intn(len(b)-1)], "truncated"
	}},
	{"trailing-data", func(r Rand, toks []Tok) ([]byte, string) {
		c := pick(r, []ns{{"letter", "x"}, {"close-bracket", "]"}, {"close-brace", "}"}, {"second-number", " 1"}, {"second-object", "{}"}, {"second-array", "\n[]"},
			{"comma", ","}, {"null", " null"}, {"quote", "\""}, {"nul-byte", "\x00"}, {"second-string", `""`}, {"semicolon", ";"}, {"ff-byte", "\xff"}, {"ndjson", "\n{}\n"}})
		return append(Join(toks), c.s...), "trailing-data:" + c.n
	}},
	{"leading-data", func(r Rand, toks []Tok) ([]byte, string) {
		c := pick(r, []ns{{"close-bracket", "]"}, {"comma", ","}, {"letter", "x"}, {"colon", ":"}, {"nul-byte", "\x00"}, {"xssi-prefix", ")]}'\n"}, {"paren", "("}})
		return append([]byte(c.s), Join(toks)...), "leading-data:" + c.n
	}},
	gapInsert("comment", []ns{{"block", "/*c*/"}, {"line", "//c\n"}, {"hash", "#c\n"}, {"html", "<!--c-->"}, {"lisp", ";c\n"}}, true),
	gapInsert("bad-whitespace", []ns{{"formfeed", "\f"}, {"vtab", "\v"}, {"nbsp", "\u00a0"}, {"nel", "\u0085"}, {"line-sep", "\u2028"}, {"zwsp", "\u200b"},
		{"ideographic-space", "\u3000"}, {"bom-inside", "\ufeff"}, {"nul", "\x00"}, {"del", "\x7f"}, {"backspace", "\b"}, {"escaped-n", `\n`}}, false),
	gapInsert("stray-byte", []ns{{"ff", "\xff"}, {"continuation-80", "\x80"}, {"e-acute", "\u00e9"}, {"backslash", `\`}, {"letter", "a"}, {"ampersand", "&"}}, true),
	named("literal-spelling", []ns{{"True", "True"}, {"TRUE", "TRUE"}, {"False", "False"}, {"Null", "Null"}, {"NULL", "NULL"}, {"nul", "nul"}, {"tru", "tru"}, {"fals", "fals"},
		{"nulll", "nulll"}, {"truee", "truee"}, {"None", "None"}, {"undefined", "undefined"}, {"nil", "nil"}, {"yes", "yes"}, {"t", "t"}, {"n", "n"}, {"f", "f"}, {"nu-ll", "nu ll"}, {"void", "void 0"}}, TLit),
	{"bracket-mismatch", func(r Rand, toks []Tok) ([]byte, string) {
		switch r.Intn(6) {
		case 0:
			return replaceOne(r, toks, punctIs("]"), "}"), "bracket-mismatch:array-closed-by-brace"
		case 1:
			return replaceOne(r, toks, punctIs("}"), "]"), "bracket-mismatch:object-closed-by-bracket"
		case 2:
			return replaceOne(r, toks, punctIs("]"), ""), "bracket-mismatch:unclosed-array"
		case 3:
			return replaceOne(r, toks, punctIs("}"), ""), "bracket-mismatch:unclosed-object"
		case 4:
			return replaceOne(r, toks, punctIs("["), ""), "bracket-mismatch:unopened-array"
		default:
			return replaceOne(r, toks, punctIs("]"), ")"), "bracket-mismatch:paren"
		}
	}},
	named("key-not-string", []ns{{"number", "1"}, {"null", "null"}, {"true", "true"}, {"array", "[]"}, {"object", "{}"}, {"float", "1.5"}}, TKey),
	{"member-incomplete", func(r Rand, toks []Tok) ([]byte, string) {
		switch r.Intn(4) {
		case 0: // {"a":}
			ix := idxOf(toks, punctIs(":"))
			if len(ix) == 0 {
				return nil, ""
			}
			i := pick(r, ix)
			n := nextSolid(toks, i)
			if n < 0 || toks[n].Kind == TPunct {
				return nil, ""
			}
			t := clone(toks)
			t[n].Text = ""
			return Join(t), "member-incomplete:value-missing"
		case 1: // {:1}
			return replaceOne(r, toks, kindIs(TKey), ""), "member-incomplete:key-missing"
		case 2: // {"a"}
			ix := idxOf(toks, punctIs(":"))
			if len(ix) == 0 {
				return nil, ""
			}
			i := pick(r, ix)
			n := nextSolid(toks, i)
			if n < 0 || toks[n].Kind == TPunct {
				return nil, ""
			}
			t := clone(toks)
			t[n].Text = ""
			t[i].Text = ""
			return Join(t), "member-incomplete:key-only"
		default: // {"a":1,"b"}
			ix := idxOf(toks, punctIs("}"))
			if len(ix) == 0 {
				return nil, ""
			}
			i := pick(r, ix)
			p := prevSolid(toks, i)
			if p < 0 || (toks[p].Kind == TPunct && toks[p].Text == "{") {
				return nil, ""
			}
			return Join(insertAt(toks, i, Tok{TPunct, `,"b"`})), "member-incomplete:trailing-key"
		}
	}},
	{"bare-word", func(r Rand, toks []Tok) ([]byte, string) {
		return replaceOne(r, toks, func(_ int, t Tok) bool { return t.Kind == TStr || t.Kind == TLit }, "abc"), "bare-word"
	}},
	{"empty-document", func(r Rand, toks []Tok) ([]byte, string) {
		c := pick(r, []ns{{"empty", ""}, {"space", " "}, {"newlines", "\n\n"}, {"mixed-ws", " \t\r\n"}})
		return []byte(c.s), "empty-document:" + c.n
	}},
	{"wide-encoding", func(r Rand, toks []Tok) ([]byte, string) {
		b := Join(toks)
		var out []byte
		switch r.Intn(3) {
		case 0:
			out = []byte{0xFF, 0xFE}
			for _, c := range b {
				out = append(out, c, 0)
			}
			return out, "wide-encoding:utf16le-bom"
		case 1:
			for _, c := range b {
				out = append(out, 0, c)
			}
			return out, "wide-encoding:utf16be"
		default:
			for _, c := range b {
				out = append(out, c, 0, 0, 0)
			}
			return out, "wide-encoding:utf32le"
		}
	}},
	{"byte-noise", func(r Rand, toks []Tok) ([]byte, string) {
		b := append([]byte(nil), Join(toks)...)
		if len(b) == 0 {
			return nil, ""
		}
		i := r.Intn(len(b))
		switch r.Intn(5) {
		case 0:
			b[i] ^= 1 << uint(r.Intn(8))
			return b, "byte-noise:bit-flip"
		case 1:
			return append(b[:i], b[i+1:]...), "byte-noise:delete"
		case 2:
			c := byte(r.Intn(256))
			out := append([]byte(nil), b[:i]...)
			out = append(out, c)
			return append(out, b[i:]...), "byte-noise:insert"
		case 3:
			out := append([]byte(nil), b[:i+1]...)
			return append(out, b[i:]...), "byte-noise:duplicate"
		default:
			if i+1 < len(b) {
				b[i], b[i+1] = b[i+1], b[i]
			}
			return b, "byte-noise:swap"
		}
	}},
}

// RandomBytes returns an arbitrary byte string biased towards JSON's alphabet.
func RandomBytes(r Rand) []byte {
	n := r.Intn(24)
	out := make([]byte, 0, n)
	alpha := "[]{}:,\"\\ \n\t0123456789-+.eEtruefalsn/u'abc"
	for i := 0; i < n; i++ {
		if chance(r, 1, 8) {
			out = append(out, byte(r.Intn(256)))
		} else {
			out = append(out, alpha[r.Intn(len(alpha))])
		}
	}
	return out
}

// JSONishBytes builds a short document from whole JSON fragments, so that a
// fair share of the results are valid.
func JSONishBytes(r Rand) []byte {
	frags := []string{"[", "]", "{", "}", ":", ",", " ", "\n", `"a"`, `"b"`, `""`, "1", "-0", "2.5", "1e3", "true", "false", "null", "[]", "{}", `"\u00e9"`, `"\ud800"`, "01", "1.", "-", `"`, "10000000000000000000", "9223372036854775808"}
	n := 1 + r.Intn(9)
	var sb strings.Builder
	for i := 0; i < n; i++ {
		sb.WriteString(pick(r, frags))
	}
	return []byte(sb.String())
}
