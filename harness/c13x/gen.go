package c13x

import (
	"fmt"
	"strings"
)

// Rand is the part of the harness PRNG the generator needs.
type Rand interface {
	Intn(n int) int
	Uint64() uint64
}

func pick[T any](r Rand, xs []T) T     { return xs[r.Intn(len(xs))] }
func chance(r Rand, num, den int) bool { return r.Intn(den) < num }

// TokKind classifies a token of a generated document.
type TokKind uint8

const (
	TWs TokKind = iota // a whitespace gap (possibly empty)
	TPunct
	TStr // a string in value position
	TKey // a string in member-name position
	TNum
	TLit
)

// Tok is one token of a generated document.
type Tok struct {
	Kind TokKind
	Text string
}

// Join renders the token list.
func Join(toks []Tok) []byte {
	n := 0
	for _, t := range toks {
		n += len(t.Text)
	}
	out := make([]byte, 0, n)
	for _, t := range toks {
		out = append(out, t.Text...)
	}
	return out
}

// GenOpts shapes a generated document.
type GenOpts struct {
	MaxDepth int // container nesting below the root value
	MaxWidth int // members/elements per container
	Dups     bool
	// Features collects the names of the spelling classes used.
	Features map[string]bool
}

type gen struct {
	r    Rand
	o    GenOpts
	toks []Tok
}

func (g *gen) feat(name string) {
	if g.o.Features != nil {
		g.o.Features[name] = true
	}
}

func (g *gen) emit(k TokKind, s string) { g.toks = append(g.toks, Tok{k, s}) }

var wsChoices = []string{"", "", "", " ", " ", "\n", "\t", "\r", "\r\n", "  ", " \t\n\r ", "\n\n    ", "\t\t"}

func (g *gen) ws() {
	s := pick(g.r, wsChoices)
	if s != "" {
		g.feat("ws:" + fmt.Sprintf("%q", s))
	}
	g.emit(TWs, s)
}

// GenDoc generates one RFC 8259 text as a token list (whitespace in every gap).
func GenDoc(r Rand, o GenOpts) []Tok {
	g := &gen{r: r, o: o}
	g.ws()
	g.value(0)
	g.ws()
	return g.toks
}

// GenRichDoc generates a document that is guaranteed to contain every token
// kind (so every mutation has something to work on).
func GenRichDoc(r Rand, o GenOpts) []Tok {
	g := &gen{r: r, o: o}
	g.ws()
	g.emit(TPunct, "[")
	g.ws()
	g.emit(TNum, GenNumber(r, nil))
	g.ws()
	g.emit(TPunct, ",")
	g.ws()
	g.emit(TStr, GenString(r, nil))
	g.ws()
	g.emit(TPunct, ",")
	g.ws()
	g.emit(TPunct, "{")
	g.ws()
	g.emit(TKey, GenString(r, nil))
	g.ws()
	g.emit(TPunct, ":")
	g.ws()
	g.emit(TLit, pick(r, []string{"true", "false", "null"}))
	g.ws()
	g.emit(TPunct, ",")
	g.ws()
	g.emit(TKey, `"k`+fmt.Sprint(r.Intn(10))+`"`)
	g.ws()
	g.emit(TPunct, ":")
	g.ws()
	g.emit(TNum, GenNumber(r, nil))
	g.ws()
	g.emit(TPunct, "}")
	g.ws()
	g.emit(TPunct, ",")
	g.ws()
	g.emit(TPunct, "[")
	g.ws()
	g.emit(TLit, pick(r, []string{"true", "false", "null"}))
	g.ws()
	g.emit(TPunct, ",")
	g.ws()
	g.emit(TStr, GenString(r, nil))
	g.ws()
	g.emit(TPunct, "]")
	n := r.Intn(3)
	for i := 0; i < n; i++ {
		g.ws()
		g.emit(TPunct, ",")
		g.ws()
		g.value(1)
	}
	g.ws()
	g.emit(TPunct, "]")
	g.ws()
	return g.toks
}

func (g *gen) value(depth int) {
	r := g.r
	k := r.Intn(20)
	if depth >= g.o.MaxDepth && k < 7 {
		k = 7 + r.Intn(13)
	}
	switch {
	case k < 3:
		g.array(depth)
	case k < 7:
		g.object(depth)
	case k < 12:
		g.emit(TNum, GenNumber(r, g.o.Features))
	case k < 17:
		g.emit(TStr, GenString(r, g.o.Features))
	case k == 17:
		g.emit(TLit, "true")
	case k == 18:
		g.emit(TLit, "false")
	default:
		g.emit(TLit, "null")
	}
}

func (g *gen) width() int {
	w := g.o.MaxWidth
	if w <= 0 {
		w = 4
	}
	switch g.r.Intn(8) {
	case 0:
		return 0
	case 1:
		return 1
	}
	return g.r.Intn(w + 1)
}

func (g *gen) array(depth int) {
	g.emit(TPunct, "[")
	n := g.width()
	if n == 0 {
		g.feat("empty-array")
	}
	g.ws()
	for i := 0; i < n; i++ {
		if i > 0 {
			g.emit(TPunct, ",")
			g.ws()
		}
		g.value(depth + 1)
		g.ws()
	}
	g.emit(TPunct, "]")
}

func (g *gen) object(depth int) {
	g.emit(TPunct, "{")
	n := g.width()
	if n == 0 {
		g.feat("empty-object")
	}
	g.ws()
	var keys []string
	for i := 0; i < n; i++ {
		if i > 0 {
			g.emit(TPunct, ",")
			g.ws()
		}
		var k string
		if g.o.Dups && len(keys) > 0 && chance(g.r, 1, 5) {
			k = pick(g.r, keys)
			g.feat("dup-key")
			if chance(g.r, 1, 2) {
				k = respell(g.r, k)
				g.feat("dup-key-respelled")
			}
		} else if chance(g.r, 1, 12) {
			// a name that coincides with a token: it is still just a name
			k = pick(g.r, TokenNames)
			g.feat("token-name")
		} else {
			k = GenString(g.r, g.o.Features)
		}
		keys = append(keys, k)
		g.emit(TKey, k)
		g.ws()
		g.emit(TPunct, ":")
		g.ws()
		g.value(depth + 1)
		g.ws()
	}
	g.emit(TPunct, "}")
}

// TokenNames are member names (JSON string literals) whose content coincides
// with a JSON literal, a number, a token of a JSON dialect or of lisp.
var TokenNames = []string{`"true"`, `"false"`, `"null"`, `"tru\u0065"`, `"\u0066alse"`, `"nil"`, `"NaN"`, `"Infinity"`, `"-Infinity"`, `"undefined"`,
	`"True"`, `"FALSE"`, `"t"`, `"0"`, `"-0"`, `"1"`, `"1e5"`, `"1.5"`, `"007"`, `"9223372036854775808"`, `""`, `":true"`, `"'true"`, `"()"`}

// respell rewrites the first plain ASCII character of a JSON string literal as
// a \u escape, which decodes to the same string.
func respell(r Rand, lit string) string {
	for i := 1; i < len(lit)-1; i++ {
		c := lit[i]
		if c == '\\' {
			return lit
		}
		if c >= 0x20 && c < 0x7f && c != '"' {
			f := "\\u%04x"
			if chance(r, 1, 2) {
				f = "\\u%04X"
			}
			return lit[:i] + fmt.Sprintf(f, c) + lit[i+1:]
		}
		if c >= 0x80 {
			return lit
		}
	}
	return lit
}

// BoundaryNumbers are number literals at every boundary the property names.
var BoundaryNumbers = []string{
	"0", "-0", "0.0", "-0.0", "0e0", "-0E-0", "0.000", "0e999", "-0e-999", "0E+1",
	"1", "-1", "10", "1.0", "1.50", "100e7", "1E+2", "1e+2", "1E2", "1e-2", "1e007", "1.0e0", "2.5E-3",
	"9007199254740991", "9007199254740992", "9007199254740993", "9007199254740994", "9007199254740995",
	"-9007199254740991", "-9007199254740992", "-9007199254740993",
	"9007199254740993.0", "9007199254740993.000000000000000000001", "9007199254740992.999999999999999999",
	"9007199254740993e0", "9.007199254740993e15",
	"9223372036854775806", "9223372036854775807", "9223372036854775808", "9223372036854775809",
	"-9223372036854775807", "-9223372036854775808", "-9223372036854775809",
	"9223372036854775807.0", "9223372036854775807e0", "9223372036854776000", "9223372036854777856", "9223372036854775800",
	"-9223372036854776000", "9223372036854777000", "9223372036854778000",
	"18446744073709551615", "18446744073709551616", "18446744073709552000",
	"10000000000000000000", "-10000000000000000000", "10000000000000000001", "12345678901234567000", "12345678901234567890",
	"100000000000000000000", "999999999999999900000", "999999999999999999999", "1000000000000000000000", "1000000000000000100000",
	"1e21", "1e+21", "1E21", "1.5e21", "999999999999999868928", "999999999999999934464", "1e20", "1e19",
	"123456789012345678901234567890", "-123456789012345678901234567890", "100000000000000000000000000000",
	"340282366920938463463374607431768211456",
	"0.000001", "0.0000001", "1e-6", "1e-7", "1.5e-7", "0.00000099999999999999995", "9.999999999999999e-7",
	"0.1", "0.2", "0.30000000000000004", "1.7976931348623157e308", "1.7976931348623158e308", "1.7976931348623159e308",
	"17976931348623157e292", "0.17976931348623157e309", "1e308", "1e309", "-1e309", "1e400", "1E+999999", "1e99999999999999999999",
	"5e-324", "4.9e-324", "4.9406564584124654e-324", "2.4703282292062327e-324", "2.4703282292062328e-324", "3e-324", "2e-324", "1e-324", "1e-400", "-1e-400", "1e-99999999999999999999",
	"2.2250738585072014e-308", "2.2250738585072011e-308", "2.225073858507201e-308",
	"123.456", "-123.456e-7", "1234567890.0987654321", "3.141592653589793238462643383279",
	"4503599627370496.5", "4503599627370497.5", "8.5", "0.5", "1.0000000000000002", "1.00000000000000011102230246251565404236316680908203125",
	"1.00000000000000011102230246251565404236316680908203124", "1.00000000000000011102230246251565404236316680908203126",
}

func digits(r Rand, n int, noLeadingZero bool) string {
	var sb strings.Builder
	for i := 0; i < n; i++ {
		d := r.Intn(10)
		if i == 0 && noLeadingZero && n > 1 && d == 0 {
			d = 1 + r.Intn(9)
		}
		sb.WriteByte(byte('0' + d))
	}
	return sb.String()
}

// GenNumber returns one RFC 8259 number spelling.
func GenNumber(r Rand, feats map[string]bool) string {
	f := func(s string) {
		if feats != nil {
			feats["num:"+s] = true
		}
	}
	neg := ""
	if chance(r, 1, 3) {
		neg = "-"
	}
	switch r.Intn(12) {
	case 0, 1:
		f("small-int")
		return neg + digits(r, 1+r.Intn(3), true)
	case 2, 3:
		f("boundary")
		return pick(r, BoundaryNumbers)
	case 4:
		f("int-digits")
		return neg + digits(r, 1+r.Intn(22), true)
	case 5:
		f("long-int")
		return neg + digits(r, 23+r.Intn(24), true)
	case 6:
		f("decimal")
		return neg + digits(r, 1+r.Intn(18), true) + "." + digits(r, 1+r.Intn(20), false)
	case 7:
		f("exponent")
		m := digits(r, 1+r.Intn(17), true)
		if chance(r, 1, 2) {
			m += "." + digits(r, 1+r.Intn(17), false)
		}
		e := pick(r, []string{"e", "E", "e+", "E+", "e-", "E-"})
		x := digits(r, 1+r.Intn(3), false)
		return neg + m + e + x
	case 8:
		// 19..21 digit integers with a zero tail: the neighbourhood of the
		// canonical-float-text exception
		f("zero-tail-int")
		sig := 14 + r.Intn(5)
		total := 19 + r.Intn(3)
		if sig > total {
			sig = total
		}
		d := digits(r, sig, true)
		if total == 19 && d[0] < '9' && chance(r, 2, 3) {
			d = "9" + d[1:]
		}
		return neg + d + strings.Repeat("0", total-sig)
	case 9:
		f("near-int64")
		base := []string{"922337203685477", "922337203685478", "184467440737095", "900719925474099"}
		return neg + pick(r, base) + digits(r, 4, false)
	case 10:
		f("tiny-or-huge")
		m := digits(r, 1+r.Intn(17), true)
		if chance(r, 1, 2) {
			m = m[:1] + "." + m[1:] + digits(r, 1, false)
		}
		e := pick(r, []string{"e-30", "e-31", "e-32", "e30", "e+30", "e-320", "e-323", "e-324", "e-325", "e307", "e308", "e309", "e292", "e-290"})
		return neg + m + e
	default:
		f("zero-spelling")
		return pick(r, []string{"0", "-0", "0.0", "-0.0", "0e0", "-0e0", "0E+5", "-0.00", "0.0e-3", "-0E-0"})
	}
}

func hex4(r Rand, v int) string {
	switch r.Intn(3) {
	case 0:
		return fmt.Sprintf("\\u%04x", v)
	case 1:
		return fmt.Sprintf("\\u%04X", v)
	}
	s := []byte(fmt.Sprintf("%04x", v))
	for i := range s {
		if s[i] >= 'a' && s[i] <= 'f' && chance(r, 1, 2) {
			s[i] -= 32
		}
	}
	return "\\u" + string(s)
}

func bmpScalar(r Rand) int {
	for {
		v := r.Intn(0x10000)
		if v < 0xD800 || v > 0xDFFF {
			return v
		}
	}
}

// GenString returns one RFC 8259 string literal (with its quotes); the raw
// bytes it contains are always well-formed UTF-8.
func GenString(r Rand, feats map[string]bool) string {
	f := func(s string) {
		if feats != nil {
			feats["str:"+s] = true
		}
	}
	var sb strings.Builder
	sb.WriteByte('"')
	n := 0
	switch r.Intn(6) {
	case 0:
		n = 0
	case 1:
		n = 1
	default:
		n = 1 + r.Intn(8)
	}
	if n == 0 {
		f("empty")
	}
	for i := 0; i < n; i++ {
		switch r.Intn(26) {
		case 0, 1, 2, 3:
			f("ascii")
			k := 1 + r.Intn(6)
			for j := 0; j < k; j++ {
				c := byte(0x20 + r.Intn(0x5f))
				if c == '"' || c == '\\' {
					c = 'a'
				}
				sb.WriteByte(c)
			}
		case 4:
			f("esc-quote")
			sb.WriteString(`\"`)
		case 5:
			f("esc-backslash")
			sb.WriteString(`\\`)
		case 6:
			f("esc-solidus")
			sb.WriteString(`\/`)
		case 7:
			f("raw-solidus")
			sb.WriteString(`/`)
		case 8:
			f("esc-short")
			sb.WriteString(pick(r, []string{`\b`, `\f`, `\n`, `\r`, `\t`}))
		case 9:
			f("esc-u-control")
			sb.WriteString(hex4(r, r.Intn(0x20)))
		case 10:
			f("esc-u-bmp")
			sb.WriteString(hex4(r, bmpScalar(r)))
		case 11:
			f("esc-u-ascii")
			sb.WriteString(hex4(r, pick(r, []int{0x22, 0x5c, 0x2f, 0x41, 0x7f, 0x20, 0x3c, 0x26})))
		case 12:
			f("esc-surrogate-pair")
			sb.WriteString(hex4(r, 0xD800+r.Intn(0x400)))
			sb.WriteString(hex4(r, 0xDC00+r.Intn(0x400)))
		case 13:
			f("esc-lone-high")
			sb.WriteString(hex4(r, 0xD800+r.Intn(0x400)))
			switch r.Intn(5) {
			case 0:
				sb.WriteString("x")
			case 1:
				sb.WriteString(`\n`)
			case 2:
				sb.WriteString(hex4(r, 0x41))
			case 3:
				sb.WriteString(hex4(r, 0xD800+r.Intn(0x400))) // high high
			}
		case 14:
			f("esc-lone-low")
			sb.WriteString(hex4(r, 0xDC00+r.Intn(0x400)))
			if chance(r, 1, 3) {
				sb.WriteString(hex4(r, 0xD800+r.Intn(0x400))) // reversed pair
			}
		case 15:
			f("raw-2byte")
			sb.Write(AppendRune(nil, 0x80+r.Intn(0x780)))
		case 16:
			f("raw-3byte")
			v := bmpScalar(r)
			if v < 0x800 {
				v += 0x800
			}
			sb.Write(AppendRune(nil, v))
		case 17:
			f("raw-4byte")
			sb.Write(AppendRune(nil, 0x10000+r.Intn(0x100000)))
		case 18:
			f("raw-line-sep")
			sb.Write(AppendRune(nil, 0x2028+r.Intn(2)))
		case 19:
			f("raw-del")
			sb.WriteByte(0x7f)
		case 20:
			f("fffd-or-nonchar")
			if chance(r, 1, 2) {
				sb.Write(AppendRune(nil, pick(r, []int{0xFFFD, 0xFFFF, 0xFFFE, 0xFEFF, 0x10FFFF, 0xFDD0})))
			} else {
				sb.WriteString(hex4(r, pick(r, []int{0xFFFD, 0xFFFF, 0xFFFE, 0xFEFF, 0xFDD0})))
			}
		case 21:
			f("esc-nul")
			sb.WriteString(`\u0000`)
		case 22:
			f("html-chars")
			sb.WriteString(pick(r, []string{"<", ">", "&", "<script>", "'"}))
		case 23:
			f("esc-u-line-sep")
			sb.WriteString(hex4(r, 0x2028+r.Intn(2)))
		case 24:
			f("space-run")
			sb.WriteString(strings.Repeat(" ", 1+r.Intn(3)))
		default:
			f("json-lookalike")
			sb.WriteString(pick(r, []string{"null", "true", "false", "1e5", "[]", "{}", ":", ",", "//", "/*"}))
		}
	}
	sb.WriteByte('"')
	return sb.String()
}

// BadUTF8Seqs are byte sequences that are not well-formed UTF-8, by class.
var BadUTF8Seqs = []struct {
	Name  string
	Bytes string
}{
	{"lone-continuation", "\x80"},
	{"overlong-2", "\xc0\x80"},
	{"overlong-3", "\xe0\x80\x80"},
	{"encoded-surrogate", "\xed\xa0\x80"},
	{"truncated-3", "\xe2\x82"},
	{"truncated-4", "\xf0\x9f\x98"},
	{"above-10ffff", "\xf4\x90\x80\x80"},
	{"f5-lead", "\xf5\x80\x80\x80"},
	{"ff-byte", "\xff"},
	{"fe-byte", "\xfe"},
}
