// Package rt drives the real interpreter: it builds runtimes the way an
// embedder would, registers the probe builtins (host code in the properties'
// sense) and turns an evaluation into a transcript the monitors compare.
package rt

import (
	"bytes"
	"context"
	"fmt"
	"strings"

	"github.com/luthersystems/elps/lisp"
	"github.com/luthersystems/elps/lisp/lisplib"
	"github.com/luthersystems/elps/parser"

	"verifharness/tree"
)

// Probe is one event of the effect trace.
type Probe struct {
	Tag     string
	Vals    string    // rendered values
	Trees   []*tree.T // structural snapshots taken at probe time
	Steps   int64
	Total   int64 // Runtime.TotalSteps() at probe time (lifetime counter, never reset)
	Height  int
	Nesting int
}

func (p Probe) String() string { return p.Tag + ":" + p.Vals }

// Opts configures a runtime.
type Opts struct {
	MaxSteps int64
	Ctx      context.Context // root context (WithContext)
	Debugger bool            // attach a dormant debugger (disables TRO)
	Profiler bool            // attach a no-op profiler
	MaxPhys  int             // 0 = default
	MaxNest  int
	MaxTail  int
	MaxMacro int
	MaxAlloc int
	NoStdlib bool
	Library  lisp.SourceLibrary
	NoProbes bool
	// PreInit, when set, runs on the bare environment (lisp.NewEnv) before
	// InitializeUserEnv: an embedder assigning exported Runtime / CallStack fields
	// before anything else.  Extra configs are handed to InitializeUserEnv after the
	// ones derived from the fields above.  Both default to nothing.
	PreInit func(env *lisp.LEnv)
	Extra   []lisp.Config
}

// R is a monitored runtime.
type R struct {
	Env    *lisp.LEnv
	Stderr *bytes.Buffer
	Trace  []Probe
	// Captured is filled by (verif:capture) inside handlers.
	Captured []*lisp.LVal
	// Callback is the lisp function installed by (verif:set-callback fn); the host
	// handler verif:hh-call calls back into it.
	Callback *lisp.LVal
	// DepthSamples is filled by (verif:depth).
	DepthSamples []DepthSample
	// OnProbe, when set, is called by every (verif:probe tag ...) after the event was
	// recorded: a monitor can act on the host side at a point the program chooses
	// (C07: fast-forward the gensym counter in the middle of an evaluation).
	OnProbe func(tag string)
}

type DepthSample struct {
	Height   int
	TailIter int32
	Logical  int
	// TailSum is the sum of TailIterations over all live frames: whichever frame a loop
	// is resumed in, its turns are counted somewhere on the stack.
	TailSum int64
	// FID is the function id of the frame that called (verif:depth): which function VALUE
	// the sampled activation belongs to (every evaluation of a lambda expression makes a
	// function with an id of its own).
	FID string
}

type dormantDebugger struct{}

func (dormantDebugger) IsEnabled() bool                    { return false }
func (dormantDebugger) OnEval(*lisp.LEnv, *lisp.LVal) bool { return false }
func (dormantDebugger) WaitIfPaused(*lisp.LEnv, *lisp.LVal) lisp.DebugAction {
	return lisp.DebugContinue
}
func (dormantDebugger) OnFunEntry(*lisp.LEnv, *lisp.LVal, *lisp.LEnv)  {}
func (dormantDebugger) OnFunReturn(*lisp.LEnv, *lisp.LVal, *lisp.LVal) {}
func (dormantDebugger) AfterFunCall(*lisp.LEnv) bool                   { return false }
func (dormantDebugger) OnError(*lisp.LEnv, *lisp.LVal) bool            { return false }

type nopProfiler struct{ n *int }

func (p nopProfiler) Start(*lisp.LVal) func() { *p.n++; return func() {} }

// New builds a runtime.  It panics only on harness misconfiguration.
func New(o Opts) *R {
	r := &R{Stderr: &bytes.Buffer{}}
	env := lisp.NewEnv(nil)
	env.Runtime.Reader = parser.NewReader()
	env.Runtime.Stderr = r.Stderr
	if o.Library != nil {
		env.Runtime.Library = o.Library
	}
	if o.PreInit != nil {
		o.PreInit(env)
	}
	var cfg []lisp.Config
	if o.MaxSteps > 0 {
		cfg = append(cfg, lisp.WithMaxSteps(o.MaxSteps))
	}
	if o.Ctx != nil {
		cfg = append(cfg, lisp.WithContext(o.Ctx))
	}
	if o.MaxPhys != 0 {
		cfg = append(cfg, lisp.WithMaximumPhysicalStackHeight(o.MaxPhys))
	}
	if o.MaxNest != 0 {
		cfg = append(cfg, lisp.WithMaxEvalNesting(o.MaxNest))
	}
	if o.MaxTail != 0 {
		cfg = append(cfg, lisp.WithMaxTailIterations(o.MaxTail))
	}
	if o.MaxMacro != 0 {
		cfg = append(cfg, lisp.WithMaxMacroExpansionDepth(o.MaxMacro))
	}
	if o.MaxAlloc != 0 {
		cfg = append(cfg, lisp.WithMaxAlloc(o.MaxAlloc))
	}
	cfg = append(cfg, o.Extra...)
	if rc := lisp.InitializeUserEnv(env, cfg...); !rc.IsNil() {
		panic(fmt.Sprint("InitializeUserEnv: ", rc))
	}
	if !o.NoStdlib {
		if rc := lisplib.LoadLibrary(env); !rc.IsNil() {
			panic(fmt.Sprint("LoadLibrary: ", rc))
		}
	}
	if !o.NoProbes {
		r.addProbes(env)
	}
	if rc := env.InPackage(lisp.String(lisp.DefaultUserPackage)); !rc.IsNil() {
		panic(fmt.Sprint("InPackage: ", rc))
	}
	if o.Debugger {
		env.Runtime.Debugger = dormantDebugger{}
	}
	if o.Profiler {
		n := 0
		env.Runtime.Profiler = nopProfiler{&n}
	}
	r.Env = env
	return r
}

type bdef struct {
	name    string
	formals *lisp.LVal
	fn      lisp.LBuiltin
}

func (b bdef) Name() string                               { return b.name }
func (b bdef) Formals() *lisp.LVal                        { return b.formals }
func (b bdef) Eval(e *lisp.LEnv, a *lisp.LVal) *lisp.LVal { return b.fn(e, a) }

// PanicValue is what (verif:panic) panics with.
const PanicValue = "verif: injected host panic"

func (r *R) addProbes(env *lisp.LEnv) {
	env.Runtime.Registry.DefinePackage("verif")
	if rc := env.InPackage(lisp.Symbol("verif")); !rc.IsNil() {
		panic(rc.String())
	}
	env.AddBuiltins(true,
		bdef{"probe", lisp.Formals("tag", lisp.VarArgSymbol, "vals"), func(e *lisp.LEnv, a *lisp.LVal) *lisp.LVal {
			tag := a.Cells[0]
			var sb strings.Builder
			for i, v := range a.Cells[1:] {
				if i > 0 {
					sb.WriteByte(' ')
				}
				sb.WriteString(v.String())
			}
			t := tag.Str
			if tag.Type != lisp.LSymbol && tag.Type != lisp.LString {
				t = tag.String()
			}
			var trees []*tree.T
			for _, v := range a.Cells[1:] {
				trees = append(trees, tree.FromLVal(v))
			}
			r.Trace = append(r.Trace, Probe{Tag: t, Vals: sb.String(), Trees: trees, Steps: e.Runtime.Steps(), Total: e.Runtime.TotalSteps(),
				Height: len(e.Runtime.Stack.Frames), Nesting: e.Runtime.EvalNesting()})
			if r.OnProbe != nil {
				r.OnProbe(t)
			}
			if len(a.Cells) > 1 {
				return a.Cells[len(a.Cells)-1]
			}
			return lisp.Nil()
		}},
		bdef{"panic", lisp.Formals(lisp.VarArgSymbol, "msg"), func(e *lisp.LEnv, a *lisp.LVal) *lisp.LVal {
			panic(PanicValue)
		}},
		bdef{"nilmap", lisp.Formals(), func(e *lisp.LEnv, a *lisp.LVal) *lisp.LVal {
			var m map[string]int
			m["x"] = 1 // runtime error panic
			return lisp.Nil()
		}},
		bdef{"capture", lisp.Formals(), func(e *lisp.LEnv, a *lisp.LVal) *lisp.LVal {
			r.Captured = append(r.Captured, e.Runtime.CurrentCondition())
			return lisp.Nil()
		}},
		// Host functions meant to be bound DIRECTLY as handler-bind handlers (a host
		// logging / reporting function): each is called with the condition name and the
		// error's data, records what the host sees as the condition being handled and an
		// effect, and then returns a value, raises an ordinary error, panics, or calls
		// back into lisp.
		bdef{"hh-value", lisp.Formals("c", lisp.VarArgSymbol, "data"), func(e *lisp.LEnv, a *lisp.LVal) *lisp.LVal {
			r.hostHandler(e, "hh-value", a)
			return lisp.QExpr(append([]*lisp.LVal{lisp.Symbol("host-handled")}, a.Cells...))
		}},
		bdef{"hh-fail", lisp.Formals("c", lisp.VarArgSymbol, "data"), func(e *lisp.LEnv, a *lisp.LVal) *lisp.LVal {
			r.hostHandler(e, "hh-fail", a)
			return e.ErrorCondition("hh-failed", a.Cells[0])
		}},
		bdef{"hh-panic", lisp.Formals("c", lisp.VarArgSymbol, "data"), func(e *lisp.LEnv, a *lisp.LVal) *lisp.LVal {
			r.hostHandler(e, "hh-panic", a)
			panic(PanicValue)
		}},
		bdef{"hh-call", lisp.Formals("c", lisp.VarArgSymbol, "data"), func(e *lisp.LEnv, a *lisp.LVal) *lisp.LVal {
			r.hostHandler(e, "hh-call", a)
			if r.Callback == nil {
				return e.ErrorCondition("hh-no-callback", a.Cells[0])
			}
			return e.FunCall(r.Callback, lisp.SExpr(append([]*lisp.LVal(nil), a.Cells...)))
		}},
		bdef{"set-callback", lisp.Formals("fn"), func(e *lisp.LEnv, a *lisp.LVal) *lisp.LVal {
			if a.Cells[0].Type != lisp.LFun {
				return e.ErrorCondition("set-callback-not-a-function", a.Cells[0])
			}
			r.Callback = a.Cells[0]
			return lisp.Nil()
		}},
		bdef{"depth", lisp.Formals(), func(e *lisp.LEnv, a *lisp.LVal) *lisp.LVal {
			fr := e.Runtime.Stack.Frames
			ds := DepthSample{Height: len(fr)}
			// the frame of this builtin itself is on top; report its caller's counters
			if len(fr) >= 2 {
				ds.TailIter = fr[len(fr)-2].TailIterations
				ds.Logical = fr[len(fr)-2].HeightLogical
				ds.FID = fr[len(fr)-2].FID
			}
			for i := range fr {
				ds.TailSum += int64(fr[i].TailIterations)
			}
			r.DepthSamples = append(r.DepthSamples, ds)
			return lisp.Int(len(fr))
		}},
		bdef{"fail", lisp.Formals("cond", lisp.VarArgSymbol, "data"), func(e *lisp.LEnv, a *lisp.LVal) *lisp.LVal {
			c := a.Cells[0]
			args := make([]interface{}, 0, len(a.Cells)-1)
			for _, v := range a.Cells[1:] {
				args = append(args, v)
			}
			return e.ErrorCondition(c.Str, args...)
		}},
	)
}

// hostHandler is the common part of the verif:hh-* handlers: the capture and the effect.
func (r *R) hostHandler(e *lisp.LEnv, tag string, a *lisp.LVal) {
	r.Captured = append(r.Captured, e.Runtime.CurrentCondition())
	var sb strings.Builder
	var trees []*tree.T
	for i, v := range a.Cells {
		if i > 0 {
			sb.WriteByte(' ')
		}
		sb.WriteString(v.String())
		trees = append(trees, tree.FromLVal(v))
	}
	r.Trace = append(r.Trace, Probe{Tag: tag, Vals: sb.String(), Trees: trees, Steps: e.Runtime.Steps(),
		Height: len(e.Runtime.Stack.Frames), Nesting: e.Runtime.EvalNesting()})
}

// Transcript is the observable outcome of one top-level evaluation.
type Transcript struct {
	Value  string // rendering of the value (or of the error)
	IsErr  bool
	Cond   string
	Msg    string
	Stderr string
	Steps  int64
	Trace  []Probe
	Panic  bool // lisp.IsInternalPanic
}

func (t Transcript) TraceString() string {
	var sb strings.Builder
	for i, p := range t.Trace {
		if i > 0 {
			sb.WriteByte('|')
		}
		sb.WriteString(p.String())
	}
	return sb.String()
}

// Outcome renders value-or-condition (no message, no stderr).
func (t Transcript) Outcome() string {
	if t.IsErr {
		return "ERR(" + t.Cond + ")"
	}
	return t.Value
}

// ErrMsg extracts the message text of an error value without its location.
func ErrMsg(v *lisp.LVal) string {
	if v.Type != lisp.LError {
		return ""
	}
	var parts []string
	for _, c := range v.Cells {
		if c.Type == lisp.LString {
			parts = append(parts, c.Str)
		} else if c.Type == lisp.LNative {
			if e, ok := c.Native.(error); ok {
				parts = append(parts, e.Error())
			} else {
				parts = append(parts, c.String())
			}
		} else {
			parts = append(parts, c.String())
		}
	}
	return strings.Join(parts, " ")
}

func (r *R) transcript(v *lisp.LVal, traceFrom, errFrom int) Transcript {
	t := Transcript{Steps: r.Env.Runtime.Steps()}
	t.Trace = append(t.Trace, r.Trace[traceFrom:]...)
	t.Stderr = r.Stderr.String()[errFrom:]
	if v == nil {
		t.IsErr, t.Cond, t.Value = true, "<nil result>", "<nil>"
		return t
	}
	if v.Type == lisp.LError {
		t.IsErr = true
		t.Cond = v.Str
		t.Msg = ErrMsg(v)
		t.Panic = lisp.IsInternalPanic(v)
		t.Value = v.String()
		return t
	}
	t.Value = v.String()
	return t
}

// Load evaluates src with LoadString and returns the raw value.
func (r *R) Load(name, src string) *lisp.LVal { return r.Env.LoadString(name, src) }

// Run evaluates src and returns the transcript of this evaluation alone.
func (r *R) Run(name, src string) Transcript {
	tf, ef := len(r.Trace), r.Stderr.Len()
	v := r.Env.LoadString(name, src)
	return r.transcript(v, tf, ef)
}

// RunCtx is Run through LoadStringContext.
func (r *R) RunCtx(ctx context.Context, name, src string) Transcript {
	tf, ef := len(r.Trace), r.Stderr.Len()
	v := r.Env.LoadStringContext(ctx, name, src)
	return r.transcript(v, tf, ef)
}

// RunV is Run but also returns the raw value.
func (r *R) RunV(name, src string) (Transcript, *lisp.LVal) {
	tf, ef := len(r.Trace), r.Stderr.Len()
	v := r.Env.LoadString(name, src)
	return r.transcript(v, tf, ef), v
}

// TranscriptOf converts a value obtained through some other entry point.
func (r *R) TranscriptOf(v *lisp.LVal, traceFrom, errFrom int) Transcript {
	return r.transcript(v, traceFrom, errFrom)
}

// Marks returns the current trace/stderr positions for TranscriptOf.
func (r *R) Marks() (int, int) { return len(r.Trace), r.Stderr.Len() }
