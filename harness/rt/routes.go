package rt

import (
	"context"
	"errors"

	"github.com/luthersystems/elps/lisp"
)

// Probes for the "how is the raising callee reached" dimension (C06): more kinds of
// host panic, host functions that call back through the exported call entry points of
// the environment they are given (the way an application-defined builtin does), and a
// host special operator / host macro that fail in Go.  They are registered on request
// only, so runtimes built for other properties are unchanged.

// ErrPanicValue is the error value (verif:panic-error) panics with.
var ErrPanicValue = errors.New("verif: injected host panic (error value)")

type nilTarget struct{ n int }

// AddCallRouteProbes registers the probes in package verif and restores the current
// package.
func (r *R) AddCallRouteProbes() {
	env := r.Env
	cur := env.Runtime.Package.Name
	if rc := env.InPackage(lisp.Symbol("verif")); !rc.IsNil() {
		panic(rc.String())
	}
	defer func() {
		if rc := env.InPackage(lisp.String(cur)); !rc.IsNil() {
			panic(rc.String())
		}
	}()
	fresh := func(cells []*lisp.LVal) *lisp.LVal { return lisp.SExpr(append([]*lisp.LVal(nil), cells...)) }
	env.AddBuiltins(true,
		// a nil pointer dereference: a runtime.Error panic, callable with any arguments
		bdef{"nilderef", lisp.Formals(lisp.VarArgSymbol, "args"), func(e *lisp.LEnv, a *lisp.LVal) *lisp.LVal {
			var p *nilTarget
			return lisp.Int(p.n)
		}},
		// a panic whose value is a Go error
		bdef{"panic-error", lisp.Formals(lisp.VarArgSymbol, "args"), func(e *lisp.LEnv, a *lisp.LVal) *lisp.LVal {
			panic(ErrPanicValue)
		}},
		// host functions that call a function value through an exported entry point
		bdef{"via-funcall", lisp.Formals("fn", lisp.VarArgSymbol, "args"), func(e *lisp.LEnv, a *lisp.LVal) *lisp.LVal {
			if a.Cells[0].Type != lisp.LFun {
				return e.ErrorCondition("via-not-a-function", a.Cells[0])
			}
			return e.FunCall(a.Cells[0], fresh(a.Cells[1:]))
		}},
		bdef{"via-funcall-ctx", lisp.Formals("fn", lisp.VarArgSymbol, "args"), func(e *lisp.LEnv, a *lisp.LVal) *lisp.LVal {
			if a.Cells[0].Type != lisp.LFun {
				return e.ErrorCondition("via-not-a-function", a.Cells[0])
			}
			return e.FunCallContext(context.Background(), a.Cells[0], fresh(a.Cells[1:]))
		}},
		// evaluates a call form it was handed as data
		bdef{"via-eval-sexpr", lisp.Formals("form"), func(e *lisp.LEnv, a *lisp.LVal) *lisp.LVal {
			f := a.Cells[0]
			if f.Type != lisp.LSExpr || len(f.Cells) == 0 {
				return e.ErrorCondition("via-not-a-call-form", f)
			}
			// whatever comes back (a tail-call or expansion mark included) is handed on,
			// as the builtin funcall does
			return e.EvalSExpr(fresh(f.Cells))
		}},
		// invokes a special operator / expands a macro it was handed as a value, on
		// argument forms handed as data
		bdef{"via-special-op", lisp.Formals("op", lisp.VarArgSymbol, "forms"), func(e *lisp.LEnv, a *lisp.LVal) *lisp.LVal {
			if a.Cells[0].Type != lisp.LFun || !a.Cells[0].IsSpecialOp() {
				return e.ErrorCondition("via-not-a-special-op", a.Cells[0])
			}
			return e.SpecialOpCall(a.Cells[0], fresh(a.Cells[1:]))
		}},
		bdef{"via-macro-call", lisp.Formals("mac", lisp.VarArgSymbol, "forms"), func(e *lisp.LEnv, a *lisp.LVal) *lisp.LVal {
			if a.Cells[0].Type != lisp.LFun || !a.Cells[0].IsMacro() {
				return e.ErrorCondition("via-not-a-macro", a.Cells[0])
			}
			v := e.MacroCall(a.Cells[0], fresh(a.Cells[1:]))
			if v != nil && v.Type == lisp.LMarkMacExpand {
				return lisp.Quote(v.Cells[0])
			}
			return v
		}},
	)
	env.AddSpecialOps(true,
		// a host special operator that fails in Go before evaluating anything
		bdef{"op-panic", lisp.Formals(lisp.VarArgSymbol, "forms"), func(e *lisp.LEnv, a *lisp.LVal) *lisp.LVal {
			panic(PanicValue)
		}},
		// a host special operator that evaluates its forms in order, like progn
		bdef{"op-eval", lisp.Formals(lisp.VarArgSymbol, "forms"), func(e *lisp.LEnv, a *lisp.LVal) *lisp.LVal {
			v := lisp.Nil()
			for _, f := range a.Cells {
				v = e.Eval(f)
				if v.Type == lisp.LError {
					return v
				}
			}
			return v
		}},
	)
	env.AddMacros(true,
		// a host macro that fails in Go while expanding
		bdef{"m-panic", lisp.Formals(lisp.VarArgSymbol, "forms"), func(e *lisp.LEnv, a *lisp.LVal) *lisp.LVal {
			panic(PanicValue)
		}},
		// a host macro that expands to its argument form
		bdef{"m-id", lisp.Formals("form"), func(e *lisp.LEnv, a *lisp.LVal) *lisp.LVal {
			return a.Cells[0]
		}},
	)
}
