// Package fw is the shared driver/worker framework of the runtime-monitoring
// harness: deterministic case sharding over child processes, coverage and
// sample collection, violation/known-finding bookkeeping, evidence files.
package fw

import (
	"bufio"
	"encoding/json"
	"fmt"
	"os"
	"os/exec"
	"path/filepath"
	"runtime"
	"runtime/debug"
	"sort"
	"strconv"
	"strings"
	"sync"
	"time"
)

// Prop describes one property check.
type Prop struct {
	ID          string
	Level       string // evidence level: exploration | fault_enumeration
	Rule        string // how cases are generated and what counts as distinct/non-trivial
	Assumptions []string
	// Cases returns the number of worker cases for the tier.
	Cases func(tier string) int
	// Run executes case idx inside a worker.
	Run func(w *W, idx int)
	// Init (optional) runs once per worker before the first case.
	Init func(w *W)
	// Driver (optional) runs in the driver process after the workers, for
	// phases that span processes (cross-process determinism, strace, -race
	// binaries).  It records into d exactly like a worker does into W.
	Driver func(d *D)
	// Aux (optional) is an auxiliary child-process mode: `vcheck <id> --aux <args…>`.
	// Drivers start it through D.RunAux (other GOMAXPROCS/GOGC, other binaries).
	Aux func(args []string) int
	// Binary selects the worker binary: "" (default), "race", "elpscheck".
	Binary string
	// Exhaustive reports whether the tier enumerates a finite space completely.
	Exhaustive func(tier string) bool
	// MinDistinct is the coverage floor below which the run is inconclusive.
	MinDistinct func(tier string) int
	// MaxWorkers caps parallelism (0 = NumCPU).
	MaxWorkers int
	// PerCaseTimeout is the watchdog for a whole worker divided by its cases; 0 = default.
	WorkerTimeout func(tier string) time.Duration
}

var registry = map[string]*Prop{}

func Register(p *Prop) { registry[p.ID] = p }

func Lookup(id string) *Prop { return registry[id] }

func IDs() []string {
	var ids []string
	for k := range registry {
		ids = append(ids, k)
	}
	sort.Strings(ids)
	return ids
}

// Violation is one refuting observation.
type Violation struct {
	Key     string `json:"key"`     // finding key: stable identifier of the failing class/input
	Summary string `json:"summary"` // one line
	Detail  string `json:"detail"`  // both sides of the comparison, inputs, etc.
	Idx     int    `json:"idx"`
	Phase   string `json:"phase,omitempty"`
}

// Rec accumulates what a worker (or the driver phase) observed.
type Rec struct {
	mu         sync.Mutex
	Evals      int64                      `json:"evaluations"`
	Cover      map[uint64]int             `json:"-"`
	CoverList  []uint64                   `json:"cover"`
	Samples    []any                      `json:"samples"`
	Violations []Violation                `json:"violations"`
	Counters   map[string]int64           `json:"counters"`
	Maxes      map[string]int64           `json:"maxes"`
	Sets       map[string]map[string]bool `json:"-"`
	SetLists   map[string][]string        `json:"sets"`
	Inconcl    []string                   `json:"inconclusive"`
	maxSamples int
}

// NewRecForAux returns an empty recorder for aux modes that reuse worker code.
func NewRecForAux() *Rec { return newRec() }

func newRec() *Rec {
	return &Rec{Cover: map[uint64]int{}, Counters: map[string]int64{}, Maxes: map[string]int64{}, Sets: map[string]map[string]bool{}, maxSamples: 4}
}

// Eval counts executions run by the check.
func (r *Rec) Eval(n int) { r.mu.Lock(); r.Evals += int64(n); r.mu.Unlock() }

// CoverKey records one distinct non-trivial case signature.
func (r *Rec) CoverKey(key string) { r.mu.Lock(); r.Cover[HashString(key)]++; r.mu.Unlock() }

// Count adds to a named counter (hook events, etc.).
func (r *Rec) Count(name string, n int64) { r.mu.Lock(); r.Counters[name] += n; r.mu.Unlock() }

// Max tracks a named maximum.
func (r *Rec) Max(name string, v int64) {
	r.mu.Lock()
	if v > r.Maxes[name] {
		r.Maxes[name] = v
	}
	r.mu.Unlock()
}

// SetAdd adds a member to a small named set (reported with its members).
func (r *Rec) SetAdd(name, member string) {
	r.mu.Lock()
	m := r.Sets[name]
	if m == nil {
		m = map[string]bool{}
		r.Sets[name] = m
	}
	if len(m) < 4096 {
		m[member] = true
	}
	r.mu.Unlock()
}

// Sample keeps a few written-out cases for the evidence file.
func (r *Rec) Sample(s any) {
	r.mu.Lock()
	if len(r.Samples) < r.maxSamples {
		r.Samples = append(r.Samples, s)
	}
	r.mu.Unlock()
}

func (r *Rec) WantSample() bool {
	r.mu.Lock()
	defer r.mu.Unlock()
	return len(r.Samples) < r.maxSamples
}

// Inconclusive records a reason this run cannot be counted as "held".
func (r *Rec) Inconclusive(reason string) {
	r.mu.Lock()
	r.Inconcl = append(r.Inconcl, reason)
	r.mu.Unlock()
}

func (r *Rec) violate(v Violation) {
	r.mu.Lock()
	if len(r.Violations) < 200 {
		r.Violations = append(r.Violations, v)
	}
	r.mu.Unlock()
}

// W is the per-worker context.
type W struct {
	*Rec
	Prop    *Prop
	Tier    string
	Seed    int64
	Shard   int
	NShards int
	Verbose bool // replay mode
	cur     int
	State   any // per-worker state set by Init
}

// RNG returns the deterministic generator of case idx (sub distinguishes streams).
func (w *W) RNG(idx int, sub string) *RNG { return NewRNG(w.Seed, w.Prop.ID+"/"+sub, idx) }

// Violation records a violation for the current case.
func (w *W) Violation(key, summary, detail string) {
	w.violate(Violation{Key: key, Summary: summary, Detail: detail, Idx: w.cur})
	if w.Verbose {
		fmt.Printf("violation key=%s\n  %s\n%s\n", key, summary, detail)
	}
}

func (w *W) Logf(format string, a ...any) {
	if w.Verbose {
		fmt.Printf(format+"\n", a...)
	}
}

// D is the driver-phase context.
type D struct {
	*Rec
	Prop  *Prop
	Tier  string
	Seed  int64
	Home  string // /verif
	Build string // build dir holding the binaries
	Repo  string
}

func (d *D) Violation(key, summary, detail string) {
	d.violate(Violation{Key: key, Summary: summary, Detail: detail, Idx: -1, Phase: "driver"})
}

// RunAux starts `vcheck[-binary] <id> --aux args…` with extra environment and
// returns its stdout.  A non-zero exit or timeout is returned as an error.
func (d *D) RunAux(binary string, env []string, timeout time.Duration, args ...string) ([]byte, error) {
	bin := filepath.Join(d.Build, "vcheck")
	if binary != "" {
		bin = filepath.Join(d.Build, "vcheck-"+binary)
	}
	cmd := exec.Command(bin, append([]string{d.Prop.ID, "--aux"}, args...)...)
	cmd.Env = append(append(os.Environ(), fmt.Sprintf("VERIF_SEED=%d", d.Seed), "VERIF_TIER="+d.Tier), env...)
	var out, errb strings.Builder
	cmd.Stdout = &out
	cmd.Stderr = &errb
	if err := cmd.Start(); err != nil {
		return nil, err
	}
	done := make(chan error, 1)
	go func() { done <- cmd.Wait() }()
	select {
	case err := <-done:
		if err != nil {
			return []byte(out.String()), fmt.Errorf("%v: %s", err, tail(errb.String(), 3000))
		}
	case <-time.After(timeout):
		cmd.Process.Kill()
		<-done
		return []byte(out.String()), fmt.Errorf("aux timed out after %v", timeout)
	}
	return []byte(out.String()), nil
}

func tail(s string, n int) string {
	if len(s) > n {
		return s[len(s)-n:]
	}
	return s
}

func (d *D) RNG(idx int, sub string) *RNG { return NewRNG(d.Seed, d.Prop.ID+"/"+sub, idx) }

// ---------------------------------------------------------------------------

func envInt(name string, def int64) int64 {
	if s := os.Getenv(name); s != "" {
		if v, err := strconv.ParseInt(s, 10, 64); err == nil {
			return v
		}
	}
	return def
}

// Main is the entry point of cmd/vcheck.
func Main() {
	args := os.Args[1:]
	if len(args) == 0 {
		fmt.Fprintf(os.Stderr, "usage: vcheck <Cxx> [--tier quick|thorough] [--replay file]\nproperties: %s\n", strings.Join(IDs(), " "))
		os.Exit(3)
	}
	id := args[0]
	tier := os.Getenv("VERIF_TIER")
	if tier == "" {
		tier = "quick"
	}
	replay := ""
	worker := ""
	out := ""
	for i := 1; i < len(args); i++ {
		switch args[i] {
		case "--tier":
			i++
			tier = args[i]
		case "--replay":
			i++
			replay = args[i]
		case "--aux":
			p := Lookup(id)
			if p == nil || p.Aux == nil {
				fmt.Fprintln(os.Stderr, "no aux mode for", id)
				os.Exit(3)
			}
			os.Exit(p.Aux(args[i+1:]))
		case "--worker":
			i++
			worker = args[i]
		case "--out":
			i++
			out = args[i]
		}
	}
	seed := envInt("VERIF_SEED", 1)
	p := Lookup(id)
	if p == nil {
		fmt.Fprintf(os.Stderr, "unknown property %q (have: %s)\n", id, strings.Join(IDs(), " "))
		os.Exit(3)
	}
	if tier != "quick" && tier != "thorough" {
		fmt.Fprintf(os.Stderr, "bad tier %q\n", tier)
		os.Exit(3)
	}
	switch {
	case worker != "":
		runWorker(p, tier, seed, worker, out)
	case replay != "":
		runReplay(p, replay)
	default:
		os.Exit(runDriver(p, tier, seed))
	}
}

func runWorker(p *Prop, tier string, seed int64, spec, out string) {
	var shard, n int
	fmt.Sscanf(spec, "%d/%d", &shard, &n)
	debug.SetMaxStack(512 << 20)
	w := &W{Rec: newRec(), Prop: p, Tier: tier, Seed: seed, Shard: shard, NShards: n}
	prog, _ := os.OpenFile(out+".progress", os.O_CREATE|os.O_WRONLY|os.O_TRUNC, 0o644)
	if p.Init != nil {
		p.Init(w)
	}
	total := p.Cases(tier)
	if n := envInt("VERIF_CASES", 0); n > 0 {
		total = int(n)
	}
	from := int(envInt("VERIF_FROM", 0))
	if lo := int(envInt("VERIF_SKIP_BELOW", 0)); lo > from {
		from = lo // development aid: run only the tail of the case list (a block appended last)
	}
	only := int(envInt("VERIF_ONLY", -1))
	for idx := shard; idx < total; idx += n {
		if idx < from || (only >= 0 && idx != only) {
			continue
		}
		w.cur = idx
		if prog != nil {
			fmt.Fprintf(prog, "%d\n", idx) // survives a process death (kernel-buffered)
		}
		func() {
			defer func() {
				if r := recover(); r != nil {
					w.Violation("go-panic-escaped", fmt.Sprintf("Go panic escaped while running case %d: %v", idx, r), string(debug.Stack()))
				}
			}()
			p.Run(w, idx)
		}()
	}
	w.finish()
	b, _ := json.Marshal(w.Rec)
	if err := os.WriteFile(out, b, 0o644); err != nil {
		fmt.Fprintln(os.Stderr, err)
		os.Exit(4)
	}
}

func (r *Rec) finish() {
	r.CoverList = r.CoverList[:0]
	for k := range r.Cover {
		r.CoverList = append(r.CoverList, k)
	}
	r.SetLists = map[string][]string{}
	for name, m := range r.Sets {
		for k := range m {
			r.SetLists[name] = append(r.SetLists[name], k)
		}
		sort.Strings(r.SetLists[name])
	}
}

func (r *Rec) merge(o *Rec) {
	r.Evals += o.Evals
	for _, k := range o.CoverList {
		r.Cover[k]++
	}
	for _, s := range o.Samples {
		if len(r.Samples) < 6 {
			r.Samples = append(r.Samples, s)
		}
	}
	r.Violations = append(r.Violations, o.Violations...)
	for k, v := range o.Counters {
		r.Counters[k] += v
	}
	for k, v := range o.Maxes {
		if v > r.Maxes[k] {
			r.Maxes[k] = v
		}
	}
	for name, l := range o.SetLists {
		for _, m := range l {
			if r.Sets[name] == nil {
				r.Sets[name] = map[string]bool{}
			}
			r.Sets[name][m] = true
		}
	}
	r.Inconcl = append(r.Inconcl, o.Inconcl...)
}

type knownFile struct {
	Known []struct {
		Property string `json:"property"`
		Key      string `json:"key"`
		What     string `json:"what"`
	} `json:"known"`
	Fixed []struct {
		Property string `json:"property"`
		Commit   string `json:"commit"`
		What     string `json:"what"`
	} `json:"fixed"`
}

// segRes is the outcome of one worker process.
type segRes struct {
	rec    *Rec // nil when the process died or was killed
	killed bool
	last   string // last case index it logged before dying
	tail   string
}

// runSegment runs one worker process over (part of) shard i/nw.
func runSegment(bin string, p *Prop, tier string, seed int64, tmp string, i, nw, seg int, timeout time.Duration, env []string) segRes {
	out := filepath.Join(tmp, fmt.Sprintf("w%d-%d.json", i, seg))
	errf, _ := os.Create(out + ".stderr")
	cmd := exec.Command(bin, p.ID, "--tier", tier, "--worker", fmt.Sprintf("%d/%d", i, nw), "--out", out)
	cmd.Stdout = errf
	cmd.Stderr = errf
	cmd.Env = append(os.Environ(), fmt.Sprintf("VERIF_SEED=%d", seed), "GOTRACEBACK=all")
	cmd.Env = append(cmd.Env, env...)
	if p.Binary == "race" {
		cmd.Env = append(cmd.Env, "GORACE=halt_on_error=0 log_path="+filepath.Join(tmp, fmt.Sprintf("race-w%d-%d", i, seg)))
	}
	var res segRes
	done := make(chan error, 1)
	if err := cmd.Start(); err != nil {
		return segRes{tail: err.Error()}
	}
	go func() { done <- cmd.Wait() }()
	var werr error
	select {
	case werr = <-done:
	case <-time.After(timeout):
		cmd.Process.Signal(os.Interrupt)
		cmd.Process.Kill()
		<-done
		res.killed = true
	}
	errf.Close()
	pb, _ := os.ReadFile(out + ".progress")
	if lines := strings.Fields(string(pb)); len(lines) > 0 {
		res.last = lines[len(lines)-1]
	}
	if res.killed {
		return res
	}
	b, rerr := os.ReadFile(out)
	if werr != nil || rerr != nil {
		eb, _ := os.ReadFile(out + ".stderr")
		if len(eb) > 6000 {
			eb = append(eb[:3000:3000], eb[len(eb)-3000:]...)
		}
		res.tail = string(eb)
		return res
	}
	rec := newRec()
	if err := json.Unmarshal(b, rec); err != nil {
		res.tail = "bad worker output: " + err.Error()
		return res
	}
	res.rec = rec
	return res
}

func firstLine(s, containing string) string {
	for _, l := range strings.Split(s, "\n") {
		if strings.Contains(l, containing) {
			return l
		}
	}
	return ""
}

func runDriver(p *Prop, tier string, seed int64) int {
	start := time.Now()
	home := os.Getenv("VERIF_HOME")
	if home == "" {
		home = "/verif"
	}
	build := os.Getenv("VERIF_BUILD")
	if build == "" {
		build = filepath.Join(home, ".build")
	}
	repo := os.Getenv("VERIF_REPO")
	if repo == "" {
		repo = "/repo"
	}
	evdir := filepath.Join(home, "evidence")
	if e := os.Getenv("VERIF_EVIDENCE_DIR"); e != "" {
		evdir = e
	}
	os.MkdirAll(evdir, 0o755)
	tmp, err := os.MkdirTemp("", "vcheck-"+p.ID+"-")
	if err != nil {
		fmt.Fprintln(os.Stderr, err)
		return 3
	}
	defer os.RemoveAll(tmp)

	total := 0
	if p.Cases != nil {
		total = p.Cases(tier)
	}
	if n := envInt("VERIF_CASES", 0); n > 0 {
		total = int(n) // development aid: truncate the case list
	}
	nw := runtime.NumCPU()
	if p.MaxWorkers > 0 && nw > p.MaxWorkers {
		nw = p.MaxWorkers
	}
	if nw > total {
		nw = total
	}
	bin := filepath.Join(build, "vcheck")
	if p.Binary != "" {
		bin = filepath.Join(build, "vcheck-"+p.Binary)
	}
	timeout := 30 * time.Minute
	if tier == "thorough" {
		timeout = 3 * time.Hour
	}
	if p.WorkerTimeout != nil {
		timeout = p.WorkerTimeout(tier)
	}

	agg := newRec()
	var wg sync.WaitGroup
	type wres struct {
		recs   []*Rec
		deaths []segRes
		killed bool
		last   string
	}
	results := make([]wres, nw)
	for i := 0; i < nw; i++ {
		wg.Add(1)
		go func(i int) {
			defer wg.Done()
			// One shard may take several processes: when a worker dies, the case it was
			// running is the finding and the rest of the shard continues in a new
			// process (a death must not hide what the remaining cases would show).
			from := 0
			for seg := 0; seg < 40; seg++ {
				r := runSegment(bin, p, tier, seed, tmp, i, nw, seg, timeout, []string{fmt.Sprintf("VERIF_FROM=%d", from)})
				if r.rec != nil {
					results[i].recs = append(results[i].recs, r.rec)
					return
				}
				if r.killed {
					results[i].killed, results[i].last = true, r.last
					return
				}
				results[i].deaths = append(results[i].deaths, r)
				idx, err := strconv.Atoi(r.last)
				if err != nil {
					return // died before its first case: nothing to continue from
				}
				from = idx + 1
			}
		}(i)
	}
	wg.Wait()
	for i, r := range results {
		for _, rec := range r.recs {
			agg.merge(rec)
		}
		if r.killed {
			agg.Inconclusive(fmt.Sprintf("worker %d exceeded the %v watchdog at case %s", i, timeout, r.last))
		}
		for _, d := range r.deaths {
			idx, _ := strconv.Atoi(d.last)
			// A death caused by a per-case wall-clock watchdog of the property itself
			// (it prints WEDGED and exits 7) is re-tried alone, now that the other
			// workers are gone, with the watchdog scaled up: on a loaded machine a case
			// can be slow without being wedged.  Any other death, and a watchdog that
			// fires again, is the finding.
			if strings.Contains(d.tail, "WEDGED:") && d.last != "" {
				rr := runSegment(bin, p, tier, seed, tmp, i, nw, 1000+idx, timeout, []string{"VERIF_ONLY=" + d.last, "VERIF_WATCHDOG_SCALE=5"})
				if rr.rec != nil {
					agg.merge(rr.rec)
					agg.Count("watchdog_deaths_not_reproduced_when_run_alone", 1)
					agg.SetAdd("slow_cases_retried", fmt.Sprintf("case %d: %s", idx, firstLine(d.tail, "WEDGED:")))
					continue
				}
				d = rr
			}
			agg.violate(Violation{Key: "worker-died", Idx: idx,
				Summary: fmt.Sprintf("worker %d/%d died while running case %s (fatal runtime error or exit)", i, nw, d.last), Detail: d.tail})
		}
	}
	if p.Binary == "race" {
		collectRaceReports(agg, tmp)
	}
	if p.Driver != nil {
		d := &D{Rec: agg, Prop: p, Tier: tier, Seed: seed, Home: home, Build: build, Repo: repo}
		func() {
			defer func() {
				if r := recover(); r != nil {
					agg.violate(Violation{Key: "driver-panic", Summary: fmt.Sprint("driver phase panicked: ", r), Detail: string(debug.Stack()), Idx: -1})
				}
			}()
			p.Driver(d)
		}()
	}
	agg.finish()

	// classify violations against the committed known-findings file
	var kf knownFile
	if b, err := os.ReadFile(filepath.Join(home, "known_findings.json")); err == nil {
		json.Unmarshal(b, &kf)
	}
	known := map[string]string{}
	for _, k := range kf.Known {
		if k.Property == p.ID {
			known[k.Key] = k.What
		}
	}
	seenKnown := map[string]int{}
	var real []Violation
	for _, v := range agg.Violations {
		if _, ok := known[v.Key]; ok {
			seenKnown[v.Key]++
			continue
		}
		real = append(real, v)
	}
	keys := make([]string, 0, len(seenKnown))
	for k := range seenKnown {
		keys = append(keys, k)
	}
	sort.Strings(keys)
	for _, k := range keys {
		fmt.Printf("KNOWN-FINDING: property=%s %s: %s (observed %d times this run)\n", p.ID, k, known[k], seenKnown[k])
	}

	distinct := len(agg.Cover)
	floor := 2
	if p.MinDistinct != nil {
		floor = p.MinDistinct(tier)
	}
	if distinct < floor {
		agg.Inconclusive(fmt.Sprintf("coverage floor not met: %d distinct non-trivial cases < %d", distinct, floor))
	}

	// replay files + VIOLATION lines (one per distinct key, at most 10)
	exit := 0
	if len(real) > 0 {
		exit = 1
		rdir := filepath.Join(evdir, "replay")
		os.MkdirAll(rdir, 0o755)
		seen := map[string]bool{}
		n := 0
		for _, v := range real {
			if seen[v.Key] {
				continue
			}
			seen[v.Key] = true
			n++
			if n > 10 {
				break
			}
			rf := filepath.Join(rdir, fmt.Sprintf("%s-%016x.json", p.ID, HashString(v.Key+v.Summary)))
			rb, _ := json.MarshalIndent(map[string]any{"property": p.ID, "tier": tier, "seed": seed, "idx": v.Idx, "phase": v.Phase,
				"key": v.Key, "summary": v.Summary, "detail": v.Detail}, "", " ")
			os.WriteFile(rf, rb, 0o644)
			fmt.Printf("VIOLATION property=%s replay=%s\n  key=%s\n  %s\n", p.ID, rf, v.Key, v.Summary)
		}
	} else if len(agg.Inconcl) > 0 {
		exit = 2
		for _, r := range agg.Inconcl {
			fmt.Printf("INCONCLUSIVE property=%s reason=%s\n", p.ID, r)
		}
	}

	cov := map[string]any{
		"evaluations":         agg.Evals,
		"distinct_nontrivial": distinct,
		"rule":                p.Rule,
		"samples":             agg.Samples,
		"counters":            agg.Counters,
		"maxima":              agg.Maxes,
		"cases":               total,
		"workers":             nw,
	}
	sets := map[string]any{}
	for name, l := range agg.SetLists {
		if len(l) > 60 {
			sets[name] = map[string]any{"count": len(l), "first": l[:60]}
		} else {
			sets[name] = map[string]any{"count": len(l), "members": l}
		}
	}
	cov["observed_sets"] = sets
	if p.Exhaustive != nil && p.Exhaustive(tier) {
		cov["exhaustive"] = true
	}
	if len(seenKnown) > 0 {
		cov["known_findings_observed"] = seenKnown
	}
	if len(agg.Inconcl) > 0 {
		cov["inconclusive"] = agg.Inconcl
	}
	if len(agg.Samples) == 0 {
		cov["samples"] = []any{"(no sample recorded)"}
	}
	level := p.Level
	if level == "" {
		level = "exploration"
	}
	verdict := "held on everything explored"
	if exit == 1 {
		verdict = "violated"
	} else if exit == 2 {
		verdict = "inconclusive"
	}
	cov["verdict"] = verdict
	ev := map[string]any{
		"property_id": p.ID, "tier": tier, "seed": seed, "level": level,
		"coverage": cov, "assumptions": p.Assumptions,
		"wall_s": time.Since(start).Seconds(), "violations": len(real),
	}
	eb, _ := json.MarshalIndent(ev, "", " ")
	os.WriteFile(filepath.Join(evdir, p.ID+".json"), append(eb, '\n'), 0o644)
	fmt.Printf("%s %s tier=%s seed=%d evaluations=%d distinct=%d violations=%d known=%d wall=%.1fs\n",
		p.ID, verdict, tier, seed, agg.Evals, distinct, len(real), len(seenKnown), time.Since(start).Seconds())
	return exit
}

func runReplay(p *Prop, file string) {
	b, err := os.ReadFile(file)
	if err != nil {
		fmt.Fprintln(os.Stderr, err)
		os.Exit(3)
	}
	var r struct {
		Tier    string `json:"tier"`
		Seed    int64  `json:"seed"`
		Idx     int    `json:"idx"`
		Phase   string `json:"phase"`
		Key     string `json:"key"`
		Summary string `json:"summary"`
		Detail  string `json:"detail"`
	}
	if err := json.Unmarshal(b, &r); err != nil {
		fmt.Fprintln(os.Stderr, err)
		os.Exit(3)
	}
	fmt.Printf("recorded: key=%s\n  %s\n%s\n---- re-executing case %d (seed %d, tier %s) ----\n", r.Key, r.Summary, r.Detail, r.Idx, r.Seed, r.Tier)
	if r.Idx < 0 || r.Phase == "driver" {
		fmt.Println("(driver-phase finding: re-run the check itself to reproduce)")
		return
	}
	w := &W{Rec: newRec(), Prop: p, Tier: r.Tier, Seed: r.Seed, NShards: 1, Verbose: true}
	if p.Init != nil {
		p.Init(w)
	}
	w.cur = r.Idx
	p.Run(w, r.Idx)
	if len(w.Violations) == 0 {
		fmt.Println("no violation on replay")
		return
	}
	os.Exit(1)
}

// ReadLines is a small helper for drivers that parse logs.
func ReadLines(path string) []string {
	f, err := os.Open(path)
	if err != nil {
		return nil
	}
	defer f.Close()
	var out []string
	sc := bufio.NewScanner(f)
	sc.Buffer(make([]byte, 1<<20), 1<<26)
	for sc.Scan() {
		out = append(out, sc.Text())
	}
	return out
}

// collectRaceReports turns Go race-detector logs (GORACE log_path files) into
// violations, de-duplicated by the pair of outermost non-runtime frames.
func collectRaceReports(agg *Rec, dir string) {
	files, _ := filepath.Glob(filepath.Join(dir, "race-*"))
	total := 0
	seen := map[string]bool{}
	for _, f := range files {
		b, err := os.ReadFile(f)
		if err != nil {
			continue
		}
		for _, blk := range strings.Split(string(b), "==================") {
			if !strings.Contains(blk, "WARNING: DATA RACE") {
				continue
			}
			total++
			key := RaceKey(blk)
			if seen[key] {
				continue
			}
			seen[key] = true
			agg.violate(Violation{Key: "data-race:" + key, Summary: "Go race detector report: " + key, Detail: tail(blk, 6000), Idx: -1, Phase: "driver"})
		}
	}
	agg.Counters["race_detector_reports"] += int64(total)
}

// RaceKey summarises a race report by the first elps/harness frame of each of
// its two accesses (line numbers stripped).
func RaceKey(blk string) string {
	var fr []string
	lines := strings.Split(blk, "\n")
	take := false
	for _, l := range lines {
		t := strings.TrimSpace(l)
		if strings.HasPrefix(t, "Write at") || strings.HasPrefix(t, "Read at") || strings.HasPrefix(t, "Previous write at") || strings.HasPrefix(t, "Previous read at") {
			take = true
			continue
		}
		if take && (strings.Contains(t, "elps/") || strings.Contains(t, "verifharness/")) && strings.HasSuffix(strings.SplitN(t, "(", 2)[0], "") && !strings.HasPrefix(t, "/") {
			fn := strings.SplitN(t, "(", 2)[0]
			fr = append(fr, fn)
			take = false
		}
	}
	if len(fr) == 0 {
		return "unknown-frames"
	}
	sort.Strings(fr)
	return strings.Join(fr, " <-> ")
}
