package fw

import "math"

// RNG is a small deterministic PRNG (splitmix64 seeding an xorshift128+).
// Every generated case derives its own RNG from (seed, property, case index)
// so that any case can be regenerated alone for replay.
type RNG struct{ s0, s1 uint64 }

func splitmix(x *uint64) uint64 {
	*x += 0x9e3779b97f4a7c15
	z := *x
	z = (z ^ (z >> 30)) * 0xbf58476d1ce4e5b9
	z = (z ^ (z >> 27)) * 0x94d049bb133111eb
	return z ^ (z >> 31)
}

// HashString is FNV-1a 64.
func HashString(s string) uint64 {
	h := uint64(14695981039346656037)
	for i := 0; i < len(s); i++ {
		h ^= uint64(s[i])
		h *= 1099511628211
	}
	return h
}

func NewRNG(seed int64, tag string, idx int) *RNG {
	x := uint64(seed)*0x9e3779b97f4a7c15 ^ HashString(tag) ^ (uint64(idx)+1)*0xd1342543de82ef95
	r := &RNG{}
	r.s0 = splitmix(&x)
	r.s1 = splitmix(&x)
	if r.s0 == 0 && r.s1 == 0 {
		r.s1 = 1
	}
	return r
}

func (r *RNG) Uint64() uint64 {
	a, b := r.s0, r.s1
	r.s0 = b
	a ^= a << 23
	r.s1 = a ^ b ^ (a >> 17) ^ (b >> 26)
	return r.s1 + b
}

// Intn returns a value in [0,n).  n<=0 returns 0.
func (r *RNG) Intn(n int) int {
	if n <= 0 {
		return 0
	}
	return int(r.Uint64() % uint64(n))
}

// Range returns a value in [lo,hi].
func (r *RNG) Range(lo, hi int) int {
	if hi <= lo {
		return lo
	}
	return lo + r.Intn(hi-lo+1)
}

func (r *RNG) Bool() bool { return r.Uint64()&1 == 1 }

// Chance returns true with probability num/den.
func (r *RNG) Chance(num, den int) bool { return r.Intn(den) < num }

func (r *RNG) Float64() float64 { return float64(r.Uint64()>>11) / (1 << 53) }

// FloatBits returns a float64 drawn from random bit patterns (finite only).
func (r *RNG) FloatBits() float64 {
	for {
		f := math.Float64frombits(r.Uint64())
		if !math.IsNaN(f) && !math.IsInf(f, 0) {
			return f
		}
	}
}

func Pick[T any](r *RNG, xs []T) T { return xs[r.Intn(len(xs))] }

// Shuffle permutes xs in place.
func Shuffle[T any](r *RNG, xs []T) {
	for i := len(xs) - 1; i > 0; i-- {
		j := r.Intn(i + 1)
		xs[i], xs[j] = xs[j], xs[i]
	}
}
