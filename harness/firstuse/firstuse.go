// Package firstuse is the aux mode of C09's first-use sweep: G goroutines started at once,
// each building its own runtime and making every call of a list in an order of its own, in
// a process that has done nothing before.  It imports the interpreter, its library and the
// harness' runtime builder only: what a process did BEFORE its first runtime exists is part
// of the schedule (round 10: the full harness binary links the linter, whose package
// initialisation walks the default builtin tables - a lazily initialised process-wide
// structure behind those tables is then already built when the goroutines start).
package firstuse

import (
	"bufio"
	"fmt"
	"os"
	"strconv"
	"strings"
	"sync"

	"verifharness/fw"
	"verifharness/rt"
)

const Guard = "(lisp:handler-bind ((condition (lisp:lambda (c &rest a) 'c09-refused))) %s)"

func Aux(args []string) int {
	fh, err := os.Open(args[0])
	if err != nil {
		fmt.Fprintln(os.Stderr, err)
		return 2
	}
	var forms []string
	sc := bufio.NewScanner(fh)
	sc.Buffer(make([]byte, 1<<20), 1<<20)
	for sc.Scan() {
		if t := strings.TrimSpace(sc.Text()); t != "" {
			forms = append(forms, t)
		}
	}
	fh.Close()
	g, _ := strconv.Atoi(args[1])
	round, _ := strconv.Atoi(args[2])
	seed, _ := strconv.ParseInt(os.Getenv("VERIF_SEED"), 10, 64)
	var wg sync.WaitGroup
	start := make(chan struct{})
	for k := 0; k < g; k++ {
		wg.Add(1)
		go func(k int) {
			defer wg.Done()
			<-start
			// the runtime itself is built inside the goroutine: loading the library is
			// a first use too
			r := rt.New(rt.Opts{MaxSteps: 200_000, NoProbes: true})
			order := make([]int, len(forms))
			for i := range order {
				order[i] = i
			}
			if k > 0 {
				fw.Shuffle(fw.NewRNG(seed, "C09/firstuse-order", round*1000+k), order)
			}
			for _, i := range order {
				func() {
					defer func() { recover() }()
					r.Env.LoadString("c09-firstuse", fmt.Sprintf(Guard, forms[i]))
					r.Env.LoadString("c09-firstuse", "(lisp:in-package 'user)")
				}()
			}
		}(k)
	}
	close(start)
	wg.Wait()
	fmt.Println("firstuse-ok", g, len(forms))
	return 0
}
