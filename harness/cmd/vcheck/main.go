package main

import (
	"verifharness/fw"
	_ "verifharness/props"
)

func main() { fw.Main() }
