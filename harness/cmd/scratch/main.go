package main

import (
	"fmt"
	"os"

	"github.com/luthersystems/elps/lisp"

	"verifharness/rt"
)

func main() {
	src, _ := os.ReadFile(os.Args[1])
	for _, dbg := range []bool{true, false} {
		r := rt.New(rt.Opts{Debugger: dbg})
		v := r.Env.LoadString("t", string(src))
		fmt.Println("debugger:", dbg, "=>", v)
		if v.Type == lisp.LError {
			loc, ok := v.Source()
			fmt.Printf("  site %v ok=%v pos=%d end=%d line=%d col=%d\n", loc, ok, loc.Pos, loc.EndPos, loc.Line, loc.Col)
			st := v.CallStack()
			for i := len(st.Frames) - 1; i >= 0; i-- {
				f := st.Frames[i]
				fmt.Printf("  frame %d: %s:%s fid=%s src=%v term=%v blk=%v\n", i, f.Package, f.Name, f.FID, f.Source, f.Terminal, f.TROBlock)
			}
		}
	}
}
