package main

import (
	"fmt"
	"time"

	"verifharness/rt"
)

func main() {
	t := time.Now()
	for i := 0; i < 20; i++ {
		rt.New(rt.Opts{})
	}
	fmt.Println("rt.New with stdlib:", time.Since(t)/20)
	t = time.Now()
	for i := 0; i < 20; i++ {
		rt.New(rt.Opts{NoStdlib: true})
	}
	fmt.Println("rt.New without stdlib:", time.Since(t)/20)
}
