// vfirst is the lean binary of C09's first-use sweep: `vfirst C09 --aux firstuse <forms> <g> <round>`.
// Unlike vcheck it links no package of the repository beyond the interpreter, the reader and
// the standard library packages a runtime loads.
package main

import (
	"fmt"
	"os"

	"verifharness/firstuse"
)

func main() {
	for i, a := range os.Args {
		if a == "firstuse" {
			os.Exit(firstuse.Aux(os.Args[i+1:]))
		}
	}
	fmt.Fprintln(os.Stderr, "usage: vfirst <id> --aux firstuse <forms-file> <goroutines> <round>")
	os.Exit(2)
}
