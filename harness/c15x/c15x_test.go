package c15x

import "testing"

func TestSelf(t *testing.T) {
	if s := SelfTest(); s != "" {
		t.Fatal(s)
	}
	p := ParseStrict("1970-01-01T00:00:00Z")
	if p.Class != WellFormed || p.Stamp.Instant().String() != "62167219200000000000" {
		t.Fatal(p, p.Stamp.Instant())
	}
	for _, s := range []string{"2020-01-01t00:00:00z", "0000-02-29T23:59:59.999999999-23:59", "2020-01-01T00:00:00-00:00"} {
		if ParseStrict(s).Class != WellFormed {
			t.Fatal(s, ParseStrict(s))
		}
	}
	for _, s := range []string{"2020-01-01T1:00:00Z", "2020-01-01T00:00:00,5Z", "2020-01-01T00:00:00+24:00", "2021-02-29T00:00:00Z", "1900-02-29T00:00:00Z", "2020-01-01T00:00:00", "", "2020-01-01T00:00:00.Z", "2020-01-01T00:00:00Z "} {
		if ParseStrict(s).Class != Malformed {
			t.Fatal(s, ParseStrict(s))
		}
	}
	st, ok := StampAt(ParseStrict("2020-03-01T00:30:00.5+01:00").Stamp.Instant(), 0, true, 2, 15)
	if !ok || st.Render() != "2020-02-29T21:15:00.500000000-02:15" {
		t.Fatal(st.Render())
	}
	d := ParseDurationExact("1h2m3.5s4ms5us6µs7ns")
	if d.Form != DurPlain || d.Nanos.RatString() != "3723504011007" {
		t.Fatal(d.Form, d.Nanos)
	}
	if ParseDurationExact("-1.5ns").Nanos.RatString() != "-3/2" || ParseDurationExact("1").Form != DurInvalid || ParseDurationExact(".5s").Form != DurExotic {
		t.Fatal("dur")
	}
}
