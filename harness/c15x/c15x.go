// Package c15x is the independent oracle of property C15: a strict RFC 3339
// date-time parser, proleptic-Gregorian day-number arithmetic with instants
// held as big.Int nanoseconds, and an exact parser for Go-style duration
// strings.  It deliberately does not import package time: the mechanism under
// test (libtime) is a thin wrapper over time.Parse / time.ParseDuration.
package c15x

import (
	"fmt"
	"math"
	"math/big"
	"strings"
)

// ---------------------------------------------------------------------------
// calendar

// IsLeap reports whether y is a leap year of the proleptic Gregorian calendar
// (year 0000 is one: it is divisible by 400).
func IsLeap(y int) bool { return y%4 == 0 && (y%100 != 0 || y%400 == 0) }

// DaysInMonth returns the length of month m (1..12) of year y.
func DaysInMonth(y, m int) int {
	switch m {
	case 1, 3, 5, 7, 8, 10, 12:
		return 31
	case 4, 6, 9, 11:
		return 30
	case 2:
		if IsLeap(y) {
			return 29
		}
		return 28
	}
	return 0
}

// DayNumber returns the number of days from 0000-01-01 (day 0) to y-m-d in the
// proleptic Gregorian calendar, for y >= 0.  It is written as a plain sum
// (years, then months) rather than a closed-form trick so that it can be
// audited by eye; DayNumberFast is the closed form used in bulk and the two
// are cross-checked by SelfTest.
func DayNumber(y, m, d int) int64 {
	var n int64
	// whole years 0 .. y-1
	yy := int64(y)
	if yy > 0 {
		n = yy*365 + (yy+3)/4 - (yy+99)/100 + (yy+399)/400
	}
	for mm := 1; mm < m; mm++ {
		n += int64(DaysInMonth(y, mm))
	}
	return n + int64(d-1)
}

// DayNumberFast is the days-from-civil algorithm shifted to the same origin
// as DayNumber (0000-01-01 = 0).  Valid for any y (also negative).
func DayNumberFast(y, m, d int) int64 {
	yy := int64(y)
	if m <= 2 {
		yy--
	}
	var era int64
	if yy >= 0 {
		era = yy / 400
	} else {
		era = (yy - 399) / 400
	}
	yoe := yy - era*400
	mp := int64((m + 9) % 12)
	doy := (153*mp+2)/5 + int64(d-1)
	doe := yoe*365 + yoe/4 - yoe/100 + doy
	// days since 0000-03-01, then shift by the 60 days of Jan+Feb of year 0
	return era*146097 + doe + 60
}

// CivilFromDayNumber inverts DayNumberFast.
func CivilFromDayNumber(n int64) (y, m, d int) {
	z := n - 60
	var era int64
	if z >= 0 {
		era = z / 146097
	} else {
		era = (z - 146096) / 146097
	}
	doe := z - era*146097
	yoe := (doe - doe/1460 + doe/36524 - doe/146096) / 365
	yy := yoe + era*400
	doy := doe - (365*yoe + yoe/4 - yoe/100)
	mp := (5*doy + 2) / 153
	dd := doy - (153*mp+2)/5 + 1
	mm := mp + 3
	if mm > 12 {
		mm -= 12
	}
	if mm <= 2 {
		yy++
	}
	return int(yy), int(mm), int(dd)
}

var (
	bigE9     = big.NewInt(1_000_000_000)
	big86400  = big.NewInt(86400)
	bigMinI64 = big.NewInt(math.MinInt64)
	bigMaxI64 = big.NewInt(math.MaxInt64)
)

// FitsInt64 reports whether x is representable as an int64.
func FitsInt64(x *big.Int) bool { return x.Cmp(bigMinI64) >= 0 && x.Cmp(bigMaxI64) <= 0 }

// ---------------------------------------------------------------------------
// stamps

// Stamp is the field-wise content of an RFC 3339 date-time as written.
type Stamp struct {
	Year, Month, Day int
	Hour, Min, Sec   int
	Frac             string // fractional digits as written ("" = no fraction)
	Sep              byte   // 'T', 't' or ' '
	Zulu             byte   // 'Z', 'z' or 0 when a numeric offset is written
	OffNeg           bool
	OffH, OffM       int
}

// Render writes the stamp in RFC 3339 syntax.
func (s Stamp) Render() string {
	var sb strings.Builder
	fmt.Fprintf(&sb, "%04d-%02d-%02d%c%02d:%02d:%02d", s.Year, s.Month, s.Day, s.Sep, s.Hour, s.Min, s.Sec)
	if s.Frac != "" {
		sb.WriteByte('.')
		sb.WriteString(s.Frac)
	}
	sb.WriteString(s.OffsetText())
	return sb.String()
}

// OffsetText renders the zone designator.
func (s Stamp) OffsetText() string {
	if s.Zulu != 0 {
		return string(s.Zulu)
	}
	sign := byte('+')
	if s.OffNeg {
		sign = '-'
	}
	return fmt.Sprintf("%c%02d:%02d", sign, s.OffH, s.OffM)
}

// OffsetSeconds is the zone offset east of UTC.
func (s Stamp) OffsetSeconds() int {
	if s.Zulu != 0 {
		return 0
	}
	o := s.OffH*3600 + s.OffM*60
	if s.OffNeg {
		return -o
	}
	return o
}

// FracNanos returns the first nine fractional digits as nanoseconds.
func (s Stamp) FracNanos() int64 {
	var n int64
	for i := 0; i < 9; i++ {
		n *= 10
		if i < len(s.Frac) {
			n += int64(s.Frac[i] - '0')
		}
	}
	return n
}

// Instant returns the nanoseconds from 0000-01-01T00:00:00Z to the stamp
// (negative for stamps whose offset places them before that origin).  Only
// meaningful for in-range fields.
func (s Stamp) Instant() *big.Int {
	days := DayNumberFast(s.Year, s.Month, s.Day)
	sec := new(big.Int).Mul(big.NewInt(days), big86400)
	sec.Add(sec, big.NewInt(int64(s.Hour*3600+s.Min*60+s.Sec-s.OffsetSeconds())))
	sec.Mul(sec, bigE9)
	return sec.Add(sec, big.NewInt(s.FracNanos()))
}

// FloorSecond returns inst rounded down to a whole second.
func FloorSecond(inst *big.Int) *big.Int {
	q, m := new(big.Int).DivMod(inst, bigE9, new(big.Int))
	_ = m
	return q.Mul(q, bigE9)
}

// SubSecond returns inst mod 1e9 in [0, 1e9).
func SubSecond(inst *big.Int) int64 {
	return new(big.Int).Mod(inst, bigE9).Int64()
}

// MinInstant / MaxInstant bound the instants an RFC 3339 string can denote.
func MinInstant() *big.Int {
	return Stamp{Year: 0, Month: 1, Day: 1, OffH: 23, OffM: 59}.Instant()
}
func MaxInstant() *big.Int {
	return Stamp{Year: 9999, Month: 12, Day: 31, Hour: 23, Min: 59, Sec: 59, Frac: "999999999", OffNeg: true, OffH: 23, OffM: 59}.Instant()
}

// FormatUTC renders inst as "YYYY-MM-DDThh:mm:ss.fffffffffZ" if its UTC year
// is within 0000..9999.
func FormatUTC(inst *big.Int) (string, bool) {
	secs, ns := new(big.Int).DivMod(inst, bigE9, new(big.Int))
	days, sod := new(big.Int).DivMod(secs, big86400, new(big.Int))
	if !days.IsInt64() {
		return "", false
	}
	y, m, d := CivilFromDayNumber(days.Int64())
	if y < 0 || y > 9999 {
		return "", false
	}
	s := sod.Int64()
	return fmt.Sprintf("%04d-%02d-%02dT%02d:%02d:%02d.%09dZ", y, m, d, s/3600, s/60%60, s%60, ns.Int64()), true
}

// Class is the oracle's verdict on a string.
type Class int

const (
	// WellFormed: matches the RFC 3339 date-time grammar with every field in
	// range, seconds <= 59 and at most nine fractional digits.  The parsers
	// must accept it.
	WellFormed Class = iota
	// Unjudged: well-formed only under a reading the property statement does
	// not settle (leap second :60, ten or more fractional digits, a space in
	// place of "T").  Either answer is accepted.
	Unjudged
	// Malformed: a field is missing, malformed or out of range.  The parsers
	// must reject it.
	Malformed
)

func (c Class) String() string { return [...]string{"well-formed", "unjudged", "malformed"}[c] }

// Parsed is the result of ParseStrict.
type Parsed struct {
	Class  Class
	Reason string // why malformed / unjudged
	Stamp  Stamp  // valid when Class != Malformed
}

func malformed(why string) Parsed { return Parsed{Class: Malformed, Reason: why} }

func twoDigits(s string, i int) (int, bool) {
	if i+2 > len(s) {
		return 0, false
	}
	a, b := s[i], s[i+1]
	if a < '0' || a > '9' || b < '0' || b > '9' {
		return 0, false
	}
	return int(a-'0')*10 + int(b-'0'), true
}

// ParseStrict applies the date-time production of RFC 3339 section 5.6
// literally:
//
//	date-time   = full-date "T" full-time
//	full-date   = 4DIGIT "-" 2DIGIT "-" 2DIGIT
//	full-time   = 2DIGIT ":" 2DIGIT ":" 2DIGIT ["." 1*DIGIT] ("Z" / ("+" / "-") 2DIGIT ":" 2DIGIT)
//
// with the range restrictions of 5.6/5.7 (month 01-12, day 01-28..31 by month
// and leap year, hour 00-23, minute 00-59, second 00-59 (60 = leap second,
// unjudged), offset hour 00-23, offset minute 00-59).  ABNF literals are case
// insensitive, so "t" and "z" are accepted as the RFC's note says.
func ParseStrict(s string) Parsed {
	var st Stamp
	unjudged := ""
	// full-date
	if len(s) < 10 {
		return malformed("too short for a full-date")
	}
	for i := 0; i < 4; i++ {
		if s[i] < '0' || s[i] > '9' {
			return malformed("year is not four digits")
		}
		st.Year = st.Year*10 + int(s[i]-'0')
	}
	if s[4] != '-' {
		return malformed("no '-' after the year")
	}
	var ok bool
	if st.Month, ok = twoDigits(s, 5); !ok {
		return malformed("month is not two digits")
	}
	if s[7] != '-' {
		return malformed("no '-' after the month")
	}
	if st.Day, ok = twoDigits(s, 8); !ok {
		return malformed("day is not two digits")
	}
	if st.Month < 1 || st.Month > 12 {
		return malformed("month out of range")
	}
	if st.Day < 1 || st.Day > DaysInMonth(st.Year, st.Month) {
		return malformed("day out of range for the month")
	}
	// separator
	if len(s) < 11 {
		return malformed("no time part")
	}
	switch s[10] {
	case 'T', 't':
		st.Sep = s[10]
	case ' ':
		st.Sep = ' '
		unjudged = "space separator (RFC 3339 5.6 NOTE: applications may choose to allow it)"
	default:
		return malformed("no 'T' between date and time")
	}
	// partial-time
	if st.Hour, ok = twoDigits(s, 11); !ok {
		return malformed("hour is not two digits")
	}
	if len(s) < 14 || s[13] != ':' {
		return malformed("no ':' after the hour")
	}
	if st.Min, ok = twoDigits(s, 14); !ok {
		return malformed("minute is not two digits")
	}
	if len(s) < 17 || s[16] != ':' {
		return malformed("no ':' after the minute")
	}
	if st.Sec, ok = twoDigits(s, 17); !ok {
		return malformed("second is not two digits")
	}
	if st.Hour > 23 {
		return malformed("hour out of range")
	}
	if st.Min > 59 {
		return malformed("minute out of range")
	}
	if st.Sec > 60 {
		return malformed("second out of range")
	}
	if st.Sec == 60 {
		unjudged = "leap second :60"
	}
	i := 19
	if i < len(s) && s[i] == '.' {
		j := i + 1
		for j < len(s) && s[j] >= '0' && s[j] <= '9' {
			j++
		}
		if j == i+1 {
			return malformed("'.' without fractional digits")
		}
		st.Frac = s[i+1 : j]
		if len(st.Frac) > 9 && unjudged == "" {
			unjudged = "more than nine fractional digits"
		}
		i = j
	}
	// time-offset
	if i >= len(s) {
		return malformed("no time-offset")
	}
	if s[i] == ',' {
		return malformed("',' where only '.' may introduce the fraction")
	}
	switch s[i] {
	case 'Z', 'z':
		st.Zulu = s[i]
		i++
	case '+', '-':
		st.OffNeg = s[i] == '-'
		if st.OffH, ok = twoDigits(s, i+1); !ok {
			return malformed("offset hour is not two digits")
		}
		if i+3 >= len(s) || s[i+3] != ':' {
			return malformed("no ':' in the offset")
		}
		if st.OffM, ok = twoDigits(s, i+4); !ok {
			return malformed("offset minute is not two digits")
		}
		if st.OffH > 23 {
			return malformed("offset hour out of range")
		}
		if st.OffM > 59 {
			return malformed("offset minute out of range")
		}
		i += 6
	default:
		return malformed("no time-offset")
	}
	if i != len(s) {
		return malformed("trailing characters")
	}
	if unjudged != "" {
		return Parsed{Class: Unjudged, Reason: unjudged, Stamp: st}
	}
	return Parsed{Class: WellFormed, Stamp: st}
}

// ---------------------------------------------------------------------------
// durations

// DurForm says how a duration string relates to the documented syntax.
type DurForm int

const (
	// DurPlain: optional sign, then one or more <digits>[.<digits>]<unit>
	// with a documented unit.  Must be accepted when in range.
	DurPlain DurForm = iota
	// DurExotic: accepted by Go's grammar but not clearly by the docstring
	// ("0", ".5s", "5.s", the Greek-mu spelling): value judged only if accepted.
	DurExotic
	// DurInvalid: not a duration string under either reading.
	DurInvalid
)

// DurParsed is the exact meaning of a duration string.
type DurParsed struct {
	Form  DurForm
	Nanos *big.Rat // exact value in nanoseconds (Form != DurInvalid)
	// Lo and Hi bound the integer results that "agree with exact arithmetic":
	// each component of the string that is not a whole number of nanoseconds
	// may be rounded down or up on its own (the documentation does not say
	// how sub-nanosecond parts are treated), so the result must lie between
	// the sum of the floors and the sum of the ceilings of the components'
	// magnitudes, with the sign applied last.  Lo == Hi == Nanos when every
	// component is integral.
	Lo, Hi *big.Int
}

var durUnits = []struct {
	name  string
	ns    int64
	plain bool
}{
	{"ns", 1, true},
	{"us", 1_000, true},
	{"µs", 1_000, true},  // micro sign, as written in the docstring
	{"μs", 1_000, false}, // Greek small mu
	{"ms", 1_000_000, true},
	{"s", 1_000_000_000, true},
	{"m", 60_000_000_000, true},
	{"h", 3_600_000_000_000, true},
}

// ParseDurationExact parses s with the grammar
//
//	[-+]? ( "0" | ( digits* [ "." digits* ] unit )+ )
//
// (at least one digit per number) into an exact rational number of ns.
func ParseDurationExact(s string) DurParsed {
	inv := DurParsed{Form: DurInvalid}
	form := DurPlain
	i := 0
	neg := false
	if i < len(s) && (s[i] == '+' || s[i] == '-') {
		neg = s[i] == '-'
		i++
	}
	if i == len(s) {
		return inv
	}
	if s[i:] == "0" {
		return DurParsed{Form: DurExotic, Nanos: new(big.Rat), Lo: new(big.Int), Hi: new(big.Int)}
	}
	total := new(big.Rat)
	lo, hi := new(big.Int), new(big.Int)
	for i < len(s) {
		j := i
		for j < len(s) && s[j] >= '0' && s[j] <= '9' {
			j++
		}
		intDigits := s[i:j]
		fracDigits := ""
		hasDot := false
		if j < len(s) && s[j] == '.' {
			hasDot = true
			k := j + 1
			for k < len(s) && s[k] >= '0' && s[k] <= '9' {
				k++
			}
			fracDigits = s[j+1 : k]
			j = k
		}
		if intDigits == "" && fracDigits == "" {
			return inv
		}
		if intDigits == "" || (hasDot && fracDigits == "") {
			form = DurExotic
		}
		// unit: longest run of non-digit, non-'.' bytes
		k := j
		for k < len(s) && s[k] != '.' && (s[k] < '0' || s[k] > '9') {
			k++
		}
		uname := s[j:k]
		var unit int64
		for _, u := range durUnits {
			if u.name == uname {
				unit = u.ns
				if !u.plain {
					form = DurExotic
				}
			}
		}
		if unit == 0 {
			return inv
		}
		num := new(big.Int)
		if intDigits+fracDigits != "" {
			num.SetString(intDigits+fracDigits, 10)
		}
		den := new(big.Int).Exp(big.NewInt(10), big.NewInt(int64(len(fracDigits))), nil)
		v := new(big.Rat).SetFrac(num, den)
		v.Mul(v, new(big.Rat).SetInt64(unit))
		total.Add(total, v)
		fl := new(big.Int).Quo(v.Num(), v.Denom()) // v >= 0: floor
		lo.Add(lo, fl)
		hi.Add(hi, fl)
		if !v.IsInt() {
			hi.Add(hi, big.NewInt(1))
		}
		i = k
	}
	if neg {
		total.Neg(total)
		lo, hi = new(big.Int).Neg(hi), new(big.Int).Neg(lo)
	}
	return DurParsed{Form: form, Nanos: total, Lo: lo, Hi: hi}
}

// DurComponents splits a duration string (sign removed) into its
// <number><unit> components, the way ParseDurationExact scans it.
func DurComponents(s string) []string {
	if len(s) > 0 && (s[0] == '+' || s[0] == '-') {
		s = s[1:]
	}
	var out []string
	i := 0
	for i < len(s) {
		j := i
		for j < len(s) && (s[j] == '.' || (s[j] >= '0' && s[j] <= '9')) {
			j++
		}
		k := j
		for k < len(s) && s[k] != '.' && (s[k] < '0' || s[k] > '9') {
			k++
		}
		if k == i {
			break
		}
		out = append(out, s[i:k])
		i = k
	}
	return out
}

// RoundedQuotient returns the float64 nearest to ns/div (ties to even).
func RoundedQuotient(ns *big.Int, div int64) float64 {
	f, _ := new(big.Rat).SetFrac(ns, big.NewInt(div)).Float64()
	return f
}

// WithinOneULP reports whether got is want or one of its two neighbours.
func WithinOneULP(got, want float64) bool {
	if math.IsNaN(got) || math.IsInf(got, 0) {
		return false
	}
	if got == want {
		return true
	}
	return got == math.Nextafter(want, math.Inf(1)) || got == math.Nextafter(want, math.Inf(-1))
}

// ---------------------------------------------------------------------------

// SelfTest cross-checks the two day-number routines, their inverse and a few
// published anchors.  It returns a description of the first disagreement.
func SelfTest() string {
	// anchors: 1970-01-01 is 719528 days after 0000-01-01; 2000-03-01 is 730545.
	if n := DayNumber(1970, 1, 1); n != 719528 {
		return fmt.Sprintf("DayNumber(1970-01-01)=%d", n)
	}
	if n := DayNumberFast(2000, 3, 1); n != 730545 {
		return fmt.Sprintf("DayNumberFast(2000-03-01)=%d", n)
	}
	var prev int64 = -1
	for y := 0; y <= 9999; y++ {
		for m := 1; m <= 12; m++ {
			dim := DaysInMonth(y, m)
			for _, d := range []int{1, 2, 28, dim} {
				a, b := DayNumber(y, m, d), DayNumberFast(y, m, d)
				if a != b {
					return fmt.Sprintf("DayNumber(%d-%d-%d)=%d but fast=%d", y, m, d, a, b)
				}
				yy, mm, dd := CivilFromDayNumber(a)
				if yy != y || mm != m || dd != d {
					return fmt.Sprintf("CivilFromDayNumber(%d)=%d-%d-%d want %d-%d-%d", a, yy, mm, dd, y, m, d)
				}
				if a < prev {
					return fmt.Sprintf("day numbers not monotone at %d-%d-%d", y, m, d)
				}
				prev = a
			}
			// consecutive: last of month + 1 == first of next
			if m < 12 && DayNumberFast(y, m, dim)+1 != DayNumberFast(y, m+1, 1) {
				return fmt.Sprintf("month boundary %d-%d", y, m)
			}
		}
		if y < 9999 && DayNumberFast(y, 12, 31)+1 != DayNumberFast(y+1, 1, 1) {
			return fmt.Sprintf("year boundary %d", y)
		}
	}
	if y, m, d := CivilFromDayNumber(-1); y != -1 || m != 12 || d != 31 {
		return "CivilFromDayNumber(-1)"
	}
	return ""
}

// StampAt re-expresses inst as a local date-time in the given numeric zone.
// ok is false when the local year falls outside 0000..9999.  The fraction is
// written with all nine digits when non-zero and omitted when zero; callers
// may trim or pad zeros afterwards.
func StampAt(inst *big.Int, zulu byte, offNeg bool, offH, offM int) (Stamp, bool) {
	st := Stamp{Sep: 'T', Zulu: zulu, OffNeg: offNeg, OffH: offH, OffM: offM}
	if zulu != 0 {
		st.OffNeg, st.OffH, st.OffM = false, 0, 0
	}
	local := new(big.Int).Mul(big.NewInt(int64(st.OffsetSeconds())), bigE9)
	local.Add(local, inst)
	secs, ns := new(big.Int).DivMod(local, bigE9, new(big.Int))
	days, sod := new(big.Int).DivMod(secs, big86400, new(big.Int))
	if !days.IsInt64() {
		return st, false
	}
	y, m, d := CivilFromDayNumber(days.Int64())
	if y < 0 || y > 9999 {
		return st, false
	}
	s := int(sod.Int64())
	st.Year, st.Month, st.Day = y, m, d
	st.Hour, st.Min, st.Sec = s/3600, s/60%60, s%60
	if ns.Sign() != 0 {
		st.Frac = fmt.Sprintf("%09d", ns.Int64())
	}
	return st, true
}
