#!/usr/bin/env python3
"""Second, offline oracle for property C15 (python3 stdlib only).

Reads JSON-lines records written by the Go driver phase (inputs, what the real
elps builtins answered, and what the Go oracle c15x concluded) and re-derives
every verdict with datetime / fractions / re.  Prints one JSON line per
disagreement:

  {"id": n, "key": "<finding key>", "summary": "..."}       real code vs. this oracle
  {"id": n, "key": "harness-oracle-disagreement", ...}       Go oracle vs. this oracle

and a final {"done": true, ...} line.  Nothing here shares code with c15x: the
calendar comes from datetime.date.toordinal (year 0000 through the 400-year
shift), durations from fractions.Fraction, float rounding from int/int true
division (correctly rounded in CPython).
"""
import sys, json, re, math, struct, datetime
from fractions import Fraction

STAMP = re.compile(r'([0-9]{4})-([0-9]{2})-([0-9]{2})([Tt ])([0-9]{2}):([0-9]{2}):([0-9]{2})(?:\.([0-9]+))?([Zz]|[+-][0-9]{2}:[0-9]{2})')
CYCLE = 146097  # days in 400 Gregorian years


def ordinal(y, m, d):
    """Proleptic Gregorian day count, valid for year 0 as well (raises ValueError on a bad date)."""
    if y <= 9599:
        return datetime.date(y + 400, m, d).toordinal() - CYCLE
    return datetime.date(y, m, d).toordinal()


ORD0 = ordinal(0, 1, 1)


def classify(s):
    """-> (class, instant_ns_since_0000 or None, parts)"""
    m = STAMP.fullmatch(s)
    if not m:
        return 'malformed', None, None
    y, mo, d, sep, h, mi, sec, frac, zone = m.groups()
    y, mo, d, h, mi, sec = int(y), int(mo), int(d), int(h), int(mi), int(sec)
    try:
        days = ordinal(y, mo, d) - ORD0
    except ValueError:
        return 'malformed', None, None
    if h > 23 or mi > 59 or sec > 60:
        return 'malformed', None, None
    off = 0
    if zone not in 'Zz':
        oh, om = int(zone[1:3]), int(zone[4:6])
        if oh > 23 or om > 59:
            return 'malformed', None, None
        off = (oh * 3600 + om * 60) * (-1 if zone[0] == '-' else 1)
    fr = frac or ''
    ns = int((fr + '000000000')[:9])
    inst = ((days * 86400 + h * 3600 + mi * 60 + sec) - off) * 10**9 + ns
    cls = 'well-formed'
    if sep == ' ' or sec == 60 or len(fr) > 9:
        cls = 'unjudged'
    return cls, inst, {'sep': sep, 'zone': zone, 'frac': fr}


UNITS = {'ns': 1, 'us': 10**3, 'µs': 10**3, 'μs': 10**3, 'ms': 10**6, 's': 10**9, 'm': 60 * 10**9, 'h': 3600 * 10**9}
COMP = re.compile(r'([0-9]*)(\.[0-9]*)?([^0-9.]+)')


def duration(s):
    """-> None (not a duration) or (exact Fraction, lo, hi)"""
    neg = False
    t = s
    if t[:1] in ('+', '-'):
        neg = t[0] == '-'
        t = t[1:]
    if t == '':
        return None
    if t == '0':
        return Fraction(0), 0, 0
    pos, total, lo, hi = 0, Fraction(0), 0, 0
    while pos < len(t):
        m = COMP.match(t, pos)
        if not m:
            return None
        ip, fp, unit = m.group(1), m.group(2), m.group(3)
        fd = fp[1:] if fp else ''
        if ip == '' and fd == '':
            return None
        if unit not in UNITS:
            return None
        v = Fraction(int((ip + fd) or '0'), 10 ** len(fd)) * UNITS[unit]
        total += v
        fl = v.numerator // v.denominator
        lo += fl
        hi += fl + (0 if v.denominator == 1 else 1)
        pos = m.end()
    if neg:
        total, lo, hi = -total, -hi, -lo
    return total, lo, hi


def blame_duration(rec):
    """Name the finding after the first component that is mis-valued on its own (same scheme as the Go check)."""
    for c in rec.get('comps') or []:
        d = duration(c['in'])
        if d is None or d[1] <= c['ns'] <= d[2]:
            continue
        m = COMP.fullmatch(c['in'])
        frac = (m.group(2) or '.')[1:]
        if len(frac) >= 10:
            return 'parse-duration-value:long-fraction'
        if frac:
            return 'parse-duration-value:fraction-' + m.group(3)
        return 'parse-duration-value:integer-' + m.group(3)
    return 'parse-duration-value:combination'


def bits(h):
    return struct.unpack('>d', bytes.fromhex(h))[0]


def within_ulp(got, want):
    if math.isnan(got) or math.isinf(got):
        return False
    return got == want or got == math.nextafter(want, math.inf) or got == math.nextafter(want, -math.inf)


def main():
    out = sys.stdout
    n = 0
    stats = {}

    def say(rec, key, summary):
        out.write(json.dumps({'id': rec.get('id'), 'key': key, 'summary': summary}) + '\n')

    for line in open(sys.argv[1], encoding='utf-8'):
        rec = json.loads(line)
        n += 1
        k = rec['k']
        stats[k] = stats.get(k, 0) + 1
        if k == 'stamp':
            s = rec['in']
            cls, inst, parts = classify(s)
            if cls != rec['go_class'] or (inst is not None and rec.get('go_inst') is not None and str(inst) != rec['go_inst']):
                say(rec, 'harness-oracle-disagreement', 'stamp %r: python %s %s, go %s %s' % (s, cls, inst, rec['go_class'], rec.get('go_inst')))
                continue
            for parser, acc in rec['acc'].items():
                if cls == 'malformed' and acc:
                    say(rec, 'rfc3339-accepts:' + (rec.get('mut') or 'py-oracle'), 'time:%s accepts %r' % (parser, s))
                if cls == 'well-formed' and not acc:
                    feat = 'lowercase-t' if parts['sep'] == 't' else 'lowercase-z' if parts['zone'] == 'z' else 'py-oracle'
                    say(rec, 'rfc3339-rejects:' + feat, 'time:%s rejects %r' % (parser, s))
            if cls == 'well-formed':
                fn, fs = rec.get('fmt_nano'), rec.get('fmt_sec')
                if fn is not None:
                    c2, i2, _ = classify(fn)
                    if c2 != 'well-formed' or i2 != inst:
                        say(rec, 'rfc3339-roundtrip-instant:parse-rfc3339-nano/format-rfc3339-nano', '%r formats as %r (%s vs %s)' % (s, fn, inst, i2))
                if fs is not None:
                    c2, i2, _ = classify(fs)
                    if c2 != 'well-formed' or i2 != inst - inst % 10**9:
                        say(rec, 'rfc3339-roundtrip-instant:parse-rfc3339-nano/format-rfc3339', '%r formats as %r (%s vs %s)' % (s, fs, inst - inst % 10**9, i2))
        elif k == 'pair':
            ca, ia, _ = classify(rec['a'])
            cb, ib, _ = classify(rec['b'])
            if ca != 'well-formed' or cb != 'well-formed':
                say(rec, 'harness-oracle-disagreement', 'pair operand not well-formed for python: %r %r' % (rec['a'], rec['b']))
                continue
            diff = ib - ia
            if str(diff) != rec['go_diff']:
                say(rec, 'harness-oracle-disagreement', 'pair %r %r: python diff %s, go diff %s' % (rec['a'], rec['b'], diff, rec['go_diff']))
                continue
            want = (ia == ib, ia < ib, ia > ib)
            got = (rec['eq'], rec['lt'], rec['gt'])
            if want != got:
                say(rec, 'time-order:py-oracle', 'time=/</> on %r %r gave %s, want %s' % (rec['a'], rec['b'], got, want))
            f = rec['from']
            if (f > 0) != (diff > 0) or (f < 0) != (diff < 0):
                say(rec, 'time-order:sign-of-time-from:py-oracle', 'time-from %r %r = %d, exact %d' % (rec['a'], rec['b'], f, diff))
            if -2**63 <= diff < 2**63 and f != diff:
                say(rec, 'time-from-value:py-oracle', 'time-from %r %r = %d, exact %d' % (rec['a'], rec['b'], f, diff))
        elif k == 'dur':
            s = rec['in']
            d = duration(s)
            go_valid = rec['go_form'] != 2
            if (d is not None) != go_valid or (d is not None and (str(d[1]) != rec['go_lo'] or str(d[2]) != rec['go_hi'])):
                say(rec, 'harness-oracle-disagreement', 'duration %r: python %s, go form %s [%s,%s]' % (s, d, rec['go_form'], rec.get('go_lo'), rec.get('go_hi')))
                continue
            if d is None or not rec['acc']:
                continue
            exact, lo, hi = d
            ns = rec['ns']
            if not (lo <= ns <= hi):
                say(rec, blame_duration(rec), 'parse-duration %r = %d ns, admissible [%d, %d]' % (s, ns, lo, hi))
            for name, div in (('ms', 10**6), ('s', 10**9)):
                got = bits(rec[name])
                want = ns / div  # int / int: correctly rounded
                if not within_ulp(got, want):
                    say(rec, 'duration-%s-inexact:py-oracle' % name, 'duration-%s of %d ns = %r, want %r' % (name, ns, got, want))
    out.write(json.dumps({'done': True, 'checked': n, 'stats': stats}) + '\n')


if __name__ == '__main__':
    main()
