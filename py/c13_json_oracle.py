#!/usr/bin/env python3
"""Second, offline oracle for C13 (python3 stdlib only).

Reads the JSONL log written by the C13 driver phase (one record per line) and
re-judges every record with Python's own json module, used strictly:
parse_constant rejects NaN/Infinity, strict=True rejects raw control
characters, numbers are kept as their literal text and interpreted with
int()/float()/fractions (float() is correctly rounded and independent of Go's
strconv), duplicate names are kept through object_pairs_hook.

Records:
  {"k":"doc","i":n,"name":..,"doc":b64,"go_valid":b,"go_utf8":b,
   "obs":{"default":O,"sn":O,"ei":O,"snei":O}}        O = {"err":cond} | {"val":T}
  {"k":"dump","i":n,"model":T,"dump":b64,"dump_sn":b64}
Tagged trees T:
  ["n"] ["b",bool] ["s",hex-utf8] ["i","decimal"] ["f","float64 bits as decimal"]
  ["a",[T..]] (vector / loaded array)  ["l",[T..]] (list, model only)
  ["o",[[hexkey,T]..]]  ["?",text]

Output: one JSON object per disagreement {"i":..,"key":..,"msg":..} and a final
{"summary":{..}} line.  Exit status is always 0; the Go driver turns the
disagreements into violations.
"""
import base64
import json
import struct
import sys
from fractions import Fraction

FFFD = "\ufffd"


class NumLit(str):
    """A number literal kept as text."""


class Pairs(list):
    """Members of an object in document order (duplicates kept)."""


def _const(name):
    raise ValueError("non-finite constant " + name)


def py_parse(raw):
    """-> ('nonutf8',None) | ('bad',msg) | ('ok',tree)"""
    try:
        text = raw.decode("utf-8", "strict")
    except UnicodeDecodeError:
        return "nonutf8", None
    try:
        tree = json.loads(text, parse_float=NumLit, parse_int=NumLit,
                          parse_constant=_const, object_pairs_hook=Pairs, strict=True)
    except RecursionError:
        return "skip", "recursion"
    except ValueError as e:  # JSONDecodeError is a ValueError
        return "bad", str(e)
    return "ok", tree


def norm_surrogates(s):
    return "".join(FFFD if 0xD800 <= ord(c) <= 0xDFFF else c for c in s)


def collapse_fffd(s):
    out = []
    for c in s:
        if c == FFFD and out and out[-1] == FFFD:
            continue
        out.append(c)
    return "".join(out)


def f_bits(bits):
    return struct.unpack("<d", struct.pack("<Q", int(bits)))[0]


def bits_of(f):
    return struct.unpack("<Q", struct.pack("<d", f))[0]


def lit_info(lit):
    neg = lit.startswith("-")
    int_shaped = not any(c in lit for c in ".eE")
    mant = lit.lstrip("-")
    for ch in "eE":
        if ch in mant:
            mant = mant.split(ch)[0]
    zero = all(c in "0." for c in mant)
    return neg, int_shaped, zero


def canonical_plain(f):
    """ES6-style text of a float with 2^63 <= |f| < 1e21: shortest round-trip
    digits (Python's repr, David Gay's algorithm) written without exponent."""
    from decimal import Decimal
    return format(Decimal(repr(f)), "f")


def ei_expect(lit):
    """what :exact-integers must do with this literal ->
    ('int',n) ('float',f) ('range',) ('unsure',f) ('overflow',)"""
    neg, int_shaped, zero = lit_info(lit)
    if lit == "-0":
        return ("float", -0.0)
    if int_shaped:
        if len(lit) <= 25:
            n = int(lit)
            if -(1 << 63) <= n < (1 << 63):
                return ("int", n)
        try:
            f = float(lit)
        except (OverflowError, ValueError):
            return ("range",)
        if f in (float("inf"), float("-inf")):
            return ("range",)
        if abs(f) >= 1e21:
            return ("range",)
        canon = canonical_plain(f)
        if canon == lit:
            return ("float", f)
        # same number of significant digits: conventions may differ -> unsure
        if len(canon.rstrip("0")) == len(lit.rstrip("0")):
            return ("unsure", f)
        return ("range",)
    try:
        f = float(lit)
    except (OverflowError, ValueError):
        return ("overflow",)
    if f in (float("inf"), float("-inf")):
        return ("overflow",)
    return ("float", f)


class Scan:
    """document-level facts, mirroring the Go side's rules"""

    def __init__(self, tree):
        self.any_overflow = False
        self.ei_overflow = False
        self.range_firm = False
        self.range_dup = False
        self.unsure = False
        self.walk(tree, False)

    def walk(self, t, in_dup):
        if isinstance(t, NumLit):
            try:
                f = float(t)
                if f in (float("inf"), float("-inf")):
                    self.any_overflow = True
            except (OverflowError, ValueError):
                self.any_overflow = True
            e = ei_expect(str(t))
            if e[0] == "overflow":
                self.ei_overflow = True
            elif e[0] == "range":
                if in_dup:
                    self.range_dup = True
                else:
                    self.range_firm = True
            elif e[0] == "unsure":
                self.unsure = True
        elif isinstance(t, Pairs):
            cnt = {}
            for k, _ in t:
                k = norm_surrogates(k)
                cnt[k] = cnt.get(k, 0) + 1
            for k, v in t:
                self.walk(v, in_dup or cnt[norm_surrogates(k)] > 1)
        elif isinstance(t, list):
            for v in t:
                self.walk(v, in_dup)


def cmp_loaded(t, o, mode, path="$"):
    """compare python tree t with observed tagged tree o; return None or msg"""
    tag = o[0]
    if t is None:
        return None if tag == "n" else "%s: null decoded to %r" % (path, o)
    if t is True or t is False:
        return None if (tag == "b" and o[1] is t) else "%s: %r decoded to %r" % (path, t, o)
    if isinstance(t, NumLit):
        lit = str(t)
        if mode in ("sn", "snei"):
            if tag == "s" and bytes.fromhex(o[1]).decode("utf-8", "replace") == lit:
                return None
            return "%s: :string-numbers gave %r for literal %s" % (path, o, lit)
        neg, int_shaped, zero = lit_info(lit)

        def want_float(f):
            if tag != "f":
                return "%s: literal %s decoded to %r, float expected" % (path, lit, o)
            g = f_bits(o[1])
            if f in (float("inf"), float("-inf")):
                return None
            if zero:
                if g != 0 or (bits_of(g) >> 63) != (1 if neg else 0):
                    return "%s: literal %s decoded to %r" % (path, lit, g)
                return None
            if g != f:
                return "%s: literal %s decoded to %r, nearest float is %r" % (path, lit, g, f)
            return None

        if mode == "default":
            try:
                f = float(lit)
            except (OverflowError, ValueError):
                return None
            return want_float(f)
        e = ei_expect(lit)
        if e[0] == "int":
            if tag == "i" and int(o[1]) == e[1]:
                return None
            return "%s: :exact-integers gave %r for literal %s" % (path, o, lit)
        if e[0] in ("float", "unsure"):
            if tag == "i":
                return "%s: :exact-integers gave an int for literal %s" % (path, lit)
            return want_float(e[1])
        if e[0] == "overflow":
            return None
        return "%s: :exact-integers loaded the oversized literal %s as %r" % (path, lit, o)
    if isinstance(t, str):
        if tag != "s":
            return "%s: string decoded to %r" % (path, o)
        got = bytes.fromhex(o[1]).decode("utf-8", "replace")
        if got != norm_surrogates(t):
            return "%s: string %r decoded to %r" % (path, t, got)
        return None
    if isinstance(t, Pairs):
        if tag != "o":
            return "%s: object decoded to %r" % (path, o[0])
        got = {}
        for hk, v in o[1]:
            k = bytes.fromhex(hk).decode("utf-8", "replace")
            if k in got:
                return "%s: decoded map has %r twice" % (path, k)
            got[k] = v
        want = {}
        for k, v in t:
            want.setdefault(norm_surrogates(k), []).append(v)
        if set(got) != set(want):
            return "%s: names differ: %r vs %r" % (path, sorted(got), sorted(want))
        for k, cands in want.items():
            first = None
            for c in reversed(cands):
                m = cmp_loaded(c, got[k], mode, path + "." + repr(k))
                if m is None:
                    first = None
                    break
                if first is None:
                    first = m
            else:
                return first
        return None
    if isinstance(t, list):
        if tag != "a":
            return "%s: array decoded to %r" % (path, o[0])
        if len(t) != len(o[1]):
            return "%s: array of %d decoded to %d elements" % (path, len(t), len(o[1]))
        for i, (a, b) in enumerate(zip(t, o[1])):
            m = cmp_loaded(a, b, mode, "%s[%d]" % (path, i))
            if m:
                return m
        return None
    return "%s: unexpected python value %r" % (path, t)


def utf16_key(s):
    return s.encode("utf-16-be", "surrogatepass")


def cmp_dump(model, t, string_nums, path="$"):
    tag = model[0]
    if tag == "n":
        return None if t is None else "%s: nil written as %r" % (path, t)
    if tag == "b":
        return None if t is model[1] else "%s: %r written as %r" % (path, model[1], t)
    if tag in ("i", "f"):
        if string_nums:
            if not isinstance(t, str) or isinstance(t, NumLit):
                return "%s: number written as %r under :string-numbers" % (path, t)
            lit = t
        else:
            if not isinstance(t, NumLit):
                return "%s: number written as %r" % (path, t)
            lit = str(t)
        try:
            if tag == "i":
                ok = Fraction(lit) == int(model[1])
            else:
                ok = float(lit) == f_bits(model[1])
        except (ValueError, OverflowError, ZeroDivisionError):
            ok = False
        return None if ok else "%s: number %r written as %s" % (path, model, lit)
    if tag == "s":
        if not isinstance(t, str) or isinstance(t, NumLit):
            return "%s: string written as %r" % (path, t)
        raw = bytes.fromhex(model[1])
        try:
            want = raw.decode("utf-8", "strict")
            got = t
        except UnicodeDecodeError:
            want = collapse_fffd(raw.decode("utf-8", "replace"))
            got = collapse_fffd(t)
        return None if got == want else "%s: string %r reads back as %r" % (path, want, got)
    if tag in ("a", "l"):
        if isinstance(t, Pairs) or not isinstance(t, list):
            return "%s: sequence written as %r" % (path, type(t).__name__)
        if len(t) != len(model[1]):
            return "%s: sequence of %d written with %d" % (path, len(model[1]), len(t))
        for i, (a, b) in enumerate(zip(model[1], t)):
            m = cmp_dump(a, b, string_nums, "%s[%d]" % (path, i))
            if m:
                return m
        return None
    if tag == "o":
        if not isinstance(t, Pairs):
            return "%s: map written as %r" % (path, type(t).__name__)
        want = {}
        all_valid = True
        for hk, v in model[1]:
            raw = bytes.fromhex(hk)
            try:
                k = raw.decode("utf-8", "strict")
            except UnicodeDecodeError:
                all_valid = False
                k = None
            want[k] = v
        if not all_valid:
            return None
        names = [k for k, _ in t]
        if len(set(names)) != len(names):
            return "%s: duplicate names in dump %r" % (path, names)
        if names != sorted(names) and names != sorted(names, key=utf16_key):
            return "UNSORTED %s: names not sorted %r" % (path, names)
        if set(names) != set(want):
            return "%s: names %r, keys %r" % (path, names, sorted(want))
        for k, v in t:
            m = cmp_dump(want[k], v, string_nums, path + "." + repr(k))
            if m:
                return m
        return None
    return "%s: unknown model tag %r" % (path, tag)


def main():
    out = sys.stdout
    stats = {"docs": 0, "dumps": 0, "py_valid": 0, "py_invalid": 0, "py_nonutf8": 0, "py_skipped": 0,
             "mode_checks": 0, "disagreements": 0}

    def report(i, key, msg):
        stats["disagreements"] += 1
        out.write(json.dumps({"i": i, "key": key, "msg": msg[:2000]}) + "\n")

    with open(sys.argv[1], "r", encoding="utf-8") as fh:
        for line in fh:
            rec = json.loads(line)
            i = rec["i"]
            if rec["k"] == "dump":
                stats["dumps"] += 1
                for field, sn in (("dump", False), ("dump_sn", True)):
                    raw = base64.b64decode(rec[field])
                    st, tree = py_parse(raw)
                    if st == "skip":
                        stats["py_skipped"] += 1
                        continue
                    if st != "ok":
                        report(i, "dump-invalid-json", "%s: python rejects the dump %r: %s %s" % (field, raw[:300], st, tree))
                        continue
                    m = cmp_dump(rec["model"], tree, sn)
                    if m:
                        key = "dump-keys-unsorted" if m.startswith("UNSORTED") else "dump-readback-differs"
                        report(i, key + (":string-numbers" if sn else ""), "%s; dump %r" % (m, raw[:300]))
                continue
            stats["docs"] += 1
            raw = base64.b64decode(rec["doc"])
            st, tree = py_parse(raw)
            if st == "skip":
                stats["py_skipped"] += 1
                continue
            if st == "nonutf8":
                stats["py_nonutf8"] += 1
                if rec["go_utf8"]:
                    report(i, "harness-self-check:utf8-validator", "go says UTF-8, python does not: %r" % raw[:200])
                continue
            if not rec["go_utf8"]:
                report(i, "harness-self-check:utf8-validator", "python says UTF-8, go does not: %r" % raw[:200])
                continue
            if (st == "ok") != bool(rec["go_valid"]):
                report(i, "harness-self-check:recognizer-vs-python",
                       "python json says %s (%s), the harness recognizer says valid=%s: %r" % (st, tree if st == "bad" else "", rec["go_valid"], raw[:300]))
                continue
            name = rec.get("name", "")
            if st == "bad":
                stats["py_invalid"] += 1
                for mode, o in rec["obs"].items():
                    stats["mode_checks"] += 1
                    if "err" not in o:
                        report(i, "invalid-accepted:" + name, "mode %s accepted %r (python: %s)" % (mode, raw[:300], tree))
                    elif mode in ("default", "ei") and o["err"] != "json:syntax-error":
                        report(i, "invalid-wrong-condition:%s:%s" % (name, mode), "mode %s rejected %r as %s" % (mode, raw[:300], o["err"]))
                continue
            stats["py_valid"] += 1
            sc = Scan(tree)
            for mode, o in rec["obs"].items():
                stats["mode_checks"] += 1
                expect_err = flexible = False
                if mode == "default":
                    if sc.any_overflow:
                        continue
                elif mode == "ei":
                    if sc.ei_overflow:
                        continue
                    if sc.range_firm:
                        expect_err = True
                    elif sc.range_dup or sc.unsure:
                        flexible = True
                if expect_err:
                    if "err" not in o:
                        report(i, "exact-integers-no-range-error", "mode ei loaded %r" % raw[:300])
                    elif o["err"] != "json:integer-range-error":
                        report(i, "exact-integers-wrong-condition", "mode ei rejected %r as %s" % (raw[:300], o["err"]))
                    continue
                if "err" in o:
                    if flexible and o["err"] == "json:integer-range-error":
                        continue
                    report(i, "valid-rejected:" + mode, "mode %s rejected the JSON text %r as %s" % (mode, raw[:300], o["err"]))
                    continue
                m = cmp_loaded(tree, o["val"], mode)
                if m:
                    report(i, "decode-differs:" + mode, "%s; document %r" % (m, raw[:300]))
    out.write(json.dumps({"summary": stats}) + "\n")


if __name__ == "__main__":
    main()
