#!/usr/bin/env python3
"""Regenerates /verif/MANIFEST.json from the table below (kept in one place so
the manifest, the not_applicable list and the registered checks cannot drift)."""
import json, os, subprocess, sys

HERE = os.path.dirname(os.path.dirname(os.path.abspath(__file__)))

# id -> (level category, technique, level text, level note, design ref)
CHECKS = {
 "C01": ("exploration", "reference-model runtime monitor (differential execution against an independent definitional interpreter)",
         "Every generated core-language program is executed by the real interpreter and by an independently written reference interpreter; value (structural), error condition, ordered effect trace from host probe builtins and debug-print output must agree. Sampled exploration with measured coverage of constructs, construct pairs and builtin x argument-type signatures; not exhaustive.",
         "Trusts harness/refint as the statement of the reference semantics (docs/lang.md + docstrings; pinned behaviour where they are silent); error messages and map-key spelling are not compared; programs the model declines (fuel, constructs outside its scope) are not judged.",
         "DESIGN.md 4/C01"),
 "C02": ("exploration", "twin execution (elimination on / off / profiler) + stack-height time series from a host builtin + hook assertion at every tail elision",
         "Tail loops over every chain of <=2 tail-position wrappers x 9 call forms (direct, thread-first/last, funcall, funcall #'f, apply with and without leading arguments, unpack, head call) x 3 recursion kinds x 3 definers (longer chains sampled) are run for several iteration counts while a host builtin samples the physical stack each turn (must not grow) and a source hook inspects every elided frame (terminal, never TROBlock); loops through handler-bind / ignore-errors / load-string must keep their frames; generated programs are compared across elimination on, off (dormant debugger) and profiler.",
         "Trusts the dormant-debugger configuration as 'elimination off'; twin pairs whose elimination-off run hits a stack/step limit are not judged; tail positions reached through builtins outside the listed wrappers are not covered.",
         "DESIGN.md 4/C02"),
 "C03": ("exploration", "hostile-input survival monitor in child worker processes (culprit = last case logged before a fatal throw); oracle lisp.IsInternalPanic, recover around every entry point, per-case watchdog",
         "Three workloads: hostile sources (random bytes, token soup, mutations of repository .lisp files and generated programs, 30 structured stressors incl. a cycle matrix (cycles through maps, vectors, lists and user-typed objects x every consumer that walks a value): 10^6-deep brackets and quote chains, recursive macros, runaway recursion, self-containing data into printing/equal?/json/format-string/elpspath, cyclic macro expansions, huge indexes) loaded under MaxSteps, default stack limits, MaxAlloc and a context deadline; a sweep over every function, operator and macro found in the registry at run time x arities 0..max+2 x argument tuples from a pool of ~85 values of every type in fresh runtimes (sampled, and on every other visit enumerated: arity 1 the whole pool, arity 2-3 the cross product of ~30 boundary values in two positions); and the byte corpus through the strict, fault-tolerant and format-preserving readers and the lexer without limits.",
         "Memory is not bounded by elps: inputs <= 2 MiB, MaxAlloc 1M (200k in the sweep); the 120 s watchdog (per source case, per call in the sweep) is wall clock: a firing ends the worker, the driver re-runs that case alone with a 600 s watchdog and reports it only if it fires again; the rest of the shard continues in a new process.",
         "DESIGN.md 4/C03"),
 "C04": ("fault_enumeration", "twin execution (budget n vs unlimited, cancellation at step k vs unlimited) over every n/k of small programs + hook assertions at every step, push and eval entry",
         "For probe-instrumented programs the unlimited run under a counting context gives N and a step-stamped effect trace; every budget n in 1..N+2 (every n for N<=400) and every cancellation index k must reproduce exactly that trace cut at n (k-1), end with step-limit-exceeded / context-cancelled unless a swallowing form intercepts, and leave outcomes identical for n>=N; budgets refill per top-level evaluation; physical height, eval nesting, tail-iteration and macro-expansion limits are enumerated 3..40 around the recursion depth with hook assertions that the stack never exceeds the maximum and evaluation never proceeds above the nesting maximum, the error is catchable and the runtime usable afterwards; empty dotimes, loads called from non-root environments and a pending time:sleep (contexts with and without a distant deadline, cancelled explicitly or through the parent) stop on cancellation; tail loops repeated at one stack depth are each bounded separately.",
         "Step stamps come from Runtime.Steps() read inside a host probe builtin; with a swallowing form only events within the budget are compared; tail/macro bounds are judged with one unit of slack; the sleep assertions use wall-clock margins of 15-20 s on 30-40 s sleeps cancelled after 30 ms.",
         "DESIGN.md 4/C04"),
 "C05": ("fault_enumeration", "invariant monitor at quiescence (after every entry point returns) + twin-runtime replay of completed effects, under injected faults",
         "Histories of 12-40 top-level evaluations in one runtime through all 15 entry points with 28 fault kinds (errors, every limit, step budget exhausted / context cancelled at an enumerated step index, host panics in six positions incl. a panicking host function passed directly as a callback, errors in handlers, handler clauses whose handler expression fails or is not a function, failures inside binding forms and callbacks, cross-package functions failing mid-body, in-package then failure in a nested load, empty sources); after every return the stack, pending conditions, evaluator nesting, entry depth, current package and raw evaluation context (hook accessors) are asserted, and a probe program must equal a twin runtime that replays a prefix of the step's effects consistent with the completion probes.",
         "Effects are atomic statements wrapped in a completion probe; the twin is driven fault-free through LoadString; unexported state is read through build-tag accessors in lisp/verif_on.go.",
         "DESIGN.md 4/C05"),
 "C06": ("exploration", "reference-model runtime monitor over generated handler nestings + host-side observation (probe builtins that panic on demand and capture the condition being handled)",
         "Trees (depth <= 6) of handler-bind (1-4 bindings, any order, duplicates, `condition`, `internal-panic`), ignore-errors, progn, calls; raise sites error / host-raised error / type error / lisp-forged internal-panic / host panic / rethrow, in bodies, handler expressions, handler bodies and helpers called from handlers, also behind a nested load-string, a callback of map/foldl/funcall/apply or a binding form; value, condition, error data, IsInternalPanic marker and the ordered effect trace are compared with the reference interpreter, and the pointer-identity pattern between the errors handlers saw (verif:capture) and the error finally returned must match the model's (rethrow re-raises the very error).",
         "Error data is restricted to self-evaluating values; messages of evaluator-raised errors are opaque; handler-bind without body forms is not generated (unspecified).",
         "DESIGN.md 4/C06"),
 "C07": ("exploration", "twin execution (macro call vs eval of its macroexpansion; macroexpand-1 fixpoint vs macroexpand) + reference-model monitor (macro programs, quasiquote templates with quote marks) + distinctness monitor over gensym runs",
         "Macro definitions generated from quasiquote templates (unquote/splice at first, middle, last, adjacent and empty splices, under quote marks, nested lists; expanding to macro calls and to definitions; gensym hygiene; computed at expansion time; defmacro and a shadowing macrolet) with call sites whose argument forms carry effect probes: the real run must agree with the reference interpreter (value, condition, ordered effects: arguments unevaluated, expansion evaluated once in the caller's scope), with the same program whose call sites read (eval (macroexpand '(m ...))), and iterating macroexpand-1 must reach macroexpand's result; quasiquote results (depth <= 6) are compared structurally including quote marks; gensym symbols of runs up to 2000 must be pairwise distinct and absent from the program's symbol set.",
         "Trusts harness/refint's macro and quasiquote semantics; expansions containing gensyms are not compared textually.",
         "DESIGN.md 4/C07"),
 "C08": ("exploration", "reference-model runtime monitor over generated multi-package programs + host-side observation of Runtime.Package and the registry through exported accessors",
         "Programs over 2-5 packages with random orders of in-package / export (before and after definition) / use-package / set (plain and qualified) / defun (readers and setters of globals) / defmacro / redefinition after import / qualified and unqualified references / cross-package calls / load-string nesting to depth 3 with in-package inside / attempts to bind :k, true, false through set, set!, let, lambda formals, labels, dotimes; every reference is observed by an effect probe; probe trace, final values, conditions, Runtime.Package.Name after the load and every package's symbol table and export list are compared with the reference model.",
         "The language package itself is never entered or modified by the workload (unspecified); trusts harness/refint's package model.",
         "DESIGN.md 4/C08"),
 "C09": ("exploration", "structural-snapshot invariant monitor + twin execution (shared Program vs fresh parse) + Go race detector over concurrent private runtimes + the repository's checked build (-tags elpscheck) as second sanitizer",
         "42 in-place/capacity-sensitive mutator forms (on the literal, on views of it, on values derived from it by forms that must hand out fresh storage) x 8 literal forms x 4 routing shapes (function returning a literal, literal in a loop body, macro arguments and &rest lists, cdr/slice views held in a global) plus generated programs; each Program is parsed once, snapshotted node by node (pointer, type, scalar fields, quoting, seal, source, len/cap, child pointers) and fingerprinted, then loaded 2-5 times in one runtime against a re-parsing twin, in fresh differently-configured runtimes, and concurrently by 2/8/32 goroutines under GOMAXPROCS 2/16 in the -race build; results must equal the fresh-parse reference, snapshot and fingerprint must be unchanged, a bystander runtime's packages must not change, no race report; a sequential sub-list is repeated under -tags elpscheck.",
         "The race detector only sees accesses the workload performs; same-value writes are invisible to the snapshot.",
         "DESIGN.md 4/C09"),
 "C10": ("exploration", "twin execution: byte-exact transcripts across fresh runtimes, concurrent runtimes after unrelated prior activity (Go race detector build) and separate processes with different GOMAXPROCS/GOGC/prior activity",
         "Each program (44 templates printing/enumerating/serialising maps, closures, errors, schema/json/gensym/time output, plus generated core programs) is run once, then in 4 concurrently running fresh runtimes after unrelated activity in the same process, under the race detector; a fixed sub-list is re-run in 4 separate processes (GOMAXPROCS 1/3/8/16, GOGC 20/100/400/off, 0-19 rounds of prior activity); value rendering, Stderr, error message and rendering with location, step count and probe trace must be byte-identical; any race report is a violation.",
         "time:utc-now / time-elapsed / sleep and file loading are excluded by construction; map-order leaks are probabilistic per comparison (>=8 keys, 8 comparisons per program).",
         "DESIGN.md 4/C10"),
 "C11": ("exploration", "history + heap-model runtime monitor: every live value re-inspected (structural snapshot) after every container operation",
         "Histories of 12-70 operations over a heap of named globals in one real runtime: constructors, views (slice/cdr/rest, views of views), every listed non-mutating operation, the five mutators, zero-length appends, appends to views and to append results, containers stored in containers (also as elements by insert-index / insert-sorted / cons / append), whole-range views, quoted literals; after each step every live value is compared with a heap model (backing, offset, length) that encodes the documented discipline.",
         "Whether append! moves a vector that has outstanding views is unspecified (capacity is an implementation detail): values whose sharing would depend on it are skipped, not judged; key spelling of maps is compared by name.",
         "DESIGN.md 4/C11"),
 "C12": ("exploration", "metamorphic runtime monitor: print/read round trip of generated values, three-reader agreement on generated and mutated source texts, and layout re-writing between complete tokens, judged by harness-side structural comparison",
         "(a) values built through the public constructors (all int64 boundaries, finite floats from random bits and decimal boundaries, strings over 17 escape classes incl. invalid UTF-8 and 60 KB, readable symbol spellings decided by a spelling-only pre-test, keywords, nested lists, quote depth 0-4) are printed, read back with the strict reader and compared structurally; print(read(print v)) must equal print v except for -0.0; (b) random bytes, token soup, balanced soup, rendered programs with comments, mutations and windows of the repository's .lisp files must be accepted or rejected by all of the strict, fault-tolerant and format-preserving readers, with identical trees; (c) every accepted text is re-laid-out twice (whitespace and comments between complete tokens, token spans from the public lexer) and must read to the same tree.",
         "A single quote on a self-evaluating atom is not judged ('5 prints as 5); 2.0 -> \"2\" -> int 2 is numerically equal; fault-tolerant acceptance means zero recorded errors; findings are minimised into stable keys (notes/NOTES-C12.md).",
         "DESIGN.md 4/C12"),
 "C13": ("exploration", "reference-model runtime monitor: libjson driven through the lisp builtins, judged by an independent byte-level RFC 8259 recognizer/decoder (math/big numbers); Python json as an offline second oracle over the recorded log in the thorough tier",
         "Generated JSON-representable values are dumped (several forms, permuted insertion order: byte-identical, keys sorted, valid per the independent recognizer, decoded back to the same data, load(dump v) equal? v); generated RFC 8259 texts and ~230 named near-miss mutations are loaded under all four :string-numbers/:exact-integers combinations (keywords and use-* defaults) and must agree with the independent decoder on acceptance, structure, literal text, int/float typing, json:integer-range-error and json:syntax-error.",
         "Trusts harness/c13x (own recognizer, decoder, UTF-8 validator, big-number classification); interpretations of DESIGN.md 4/C13 and notes/NOTES-C13.md (list==vector, invalid UTF-8, duplicate names, float overflow literals, canonical-float-text 'unsure' band) are not judged.",
         "DESIGN.md 4/C13"),
 "C14": ("exploration", "reference-model runtime monitor: generated schemas and values run through the real s: builtins, judged by an independent model of the documented meaning (exact rational comparison, own regex matcher), with string/symbol/JSON twin maps",
         "Schemas (type x 0-4 constraints from every constructor, nested to depth 2, via s:deftype and s:make-validator) are built in a real runtime and applied to values aimed at every comparison/length constant, pattern, key set and container emptiness; the model returns the set of documented outcomes (accept / wrong-type / failed-constraint) and the real verdict must lie in it; every 5th case plants one malformation that must be refused with bad-arguments at construction and never yield a silent pass; every map is also validated as string-keyed, symbol-keyed and JSON round-tripped twin.",
         "Trusts harness/c14x as the documented meaning (libschema README + docstrings); cases the docs do not decide are not judged (notes/NOTES-C14.md), in particular the strings \"true\"/\"false\" against s:bool/s:is-true/s:is-false, which the repository's own tests pin as accepted.",
         "DESIGN.md 4/C14"),
 "C15": ("exploration", "reference-model runtime monitor: the time builtins judged by an independent strict RFC 3339 parser, proleptic-Gregorian day-number arithmetic in big.Int nanoseconds and an exact duration parser (no use of package time); Python datetime/fractions as an offline second oracle over a recorded sample; guarded wall-clock probes for sleep",
         "Well-formed timestamps from a grammar (years 0000-9999, leap days, every offset, 0-9 fraction digits) must be accepted and round-trip to the second / nanosecond; 68 named near-miss mutations must be rejected (the mutation name is the finding key); pairs and triples of instants incl. equal instants under different offsets must be totally ordered consistently with the sign of time-from; time-add/time-from must be inverse without overflow; duration accessors must agree with exact arithmetic within 1 ulp; the cross product of (duration, :max, host ceiling, context deadline) around every boundary must be refused immediately with the documented condition or sleep no longer than requested.",
         "Leap second :60, a space for T and 10+ fraction digits are generated but not judged; duration rounding may be floor or ceil per component; sleep timing uses a 1 s margin, a per-worker lateness probe that discards observations made while the process was starved, and needs 4 identical attempts (notes/NOTES-C15.md).",
         "DESIGN.md 4/C15"),
 "C16": ("exploration", "metamorphic twin execution of the real formatter (format vs format-of-format, input vs output) judged by an oracle built only on the strict reader and the public lexer token stream",
         "Source texts (all repo .lisp files, random token trees with comments/blank lines/tabs/CRLF in every gap incl. inside prefix forms and before closing brackets, every literal spelling and bracket kind, 16 token-level mutations) are formatted under the CLI default config, random indent/blank-line/rules configs, compact+strip, and strip or compact alone; strict parses of input and output must be identical node by node, an independently read token tree must match in spellings and bracket kinds, every comment must survive in order anchored to the same tree path, Format(Format(x)) must equal Format(x) byte for byte, and rejected input must yield an error and zero bytes.",
         "The documented re-sugaring of #' / #^ and hoisting of comments out of a prefix gap are treated as allowed normalisations; layout is judged only through idempotence; violations are shrunk and keyed by the minimised input's class (notes/NOTES-C16.md).",
         "DESIGN.md 4/C16"),
 "C17": ("exploration", "twin execution of original vs minified sessions in fresh runtimes (value, Stderr, error condition per file) + determinism twin (three Minify calls in-process, re-minification in the driver process) + symbol-map inversion against an independent tokenizer; failures shrunk to a keyed minimal session",
         "Generated statically scoped sessions of 1-4 files (every binding form, shadowing of locals/globals/builtins, macros with templates, macrolet, packages with export / use-package / qualified references across files, keywords, quoted data, minifier-like identifiers) are minified with the command's defaults and with rename-exports / parameter renaming / exclusion lists; the minified files must read, and loaded in order into a fresh runtime give the same per-file value, output and error condition as the originals; three Minify calls and a second process must agree byte for byte; every reported rename must sit on a symbol token of the original and invert through the map.  31 fixed probe sessions, one family per known defect of the scope analysis, run through the same oracle: a family whose probe fails is reported under its fixed key and its trigger is kept out of the random workload (counted), a family whose probes pass is generated and judged again.",
         "Preconditions of the property are enforced by construction and re-checked on every shrink candidate (no computed symbols, no definitions inside function bodies, hygienic macros, keyword arguments only where parameters are preserved); error messages, traces and printed function values are not compared; the evaluator is the ground truth, no part of analysis/ or minifier/ is used by the oracle.",
         "DESIGN.md 4/C17"),
 "C18": ("exploration", "reference-model runtime monitor: the model records the failing syntax node and the chain of active calls, the renderer records every node's span; compared with (*LVal).Source() and CallStack() under elimination off (exact) and on (subsequence justified by a tail-elision hook)",
         "Failing programs (generated programs with a buried ill-typed / wrong-arity / unbound / error form at every position class the generator reaches, macro templates with the failing form written in the template, spliced from the call site, or built without position, and tail loops whose last turn makes a failing tail call) are rendered with random layout; the real error's location must be the span of the form the model identifies for the judged classes, and the stack trace, innermost first, must equal the model's active-call chain with call-site positions when elimination is off, and with elimination on be that trace minus frames a tail-elision hook saw collapsed.",
         "Function calls are active from application, operators while their sub-forms run, macros only during expansion; callee call sites of calls made by builtins on the program's behalf are not compared; error classes the statement does not name are only required to lie inside the source; a function bound under several global names may be reported under any of them.",
         "DESIGN.md 4/C18"),
 "C19": ("exploration", "differential runtime monitor: the real linter (the three configurations cmd/lint.go can produce) against the real evaluator's argument binder on generated one-call sources; largely exhaustive",
         "Exhaustive: every name in the default registry enumerated at run time (135 core names + 112 stdlib functions) x k = 0..max+2 arguments (bare and lisp:-qualified, keyword tails for &key), all 72 defun formals lists x k = 0..6, 31 shadowing context shapes x 9 builtin names x 6 shadow values x k = 0..4, and one name defined twice (9 placements of the call before/between/after the definitions and in functions invoked between/after them, in one package or two x 4 defun/defmacro pairs x 20 ordered pairs of formals lists x k = 0..3); plus sampled variants under wrappers. A call is 'reported' when builtin-arity / if-arity / user-arity flags the call form; it 'fails binding' when evaluation ends in one of the binder's errors with the callee on top of the error's call stack; which binding or definition a call reaches is decided by evaluating (probe in the shadow / definition body, control run recording what the name is bound to at the call).",
         "Binding failure is recognised by the binder's message classes and the error's call stack; &key signatures and stdlib names are judged in one direction only; local functions that fail binding owe no report (notes/NOTES-C19.md).",
         "DESIGN.md 4/C19"),
 "C20": ("exploration", "reference-model runtime monitor over real sandboxes: an in-memory symlink-aware file-system model decides which file a location may serve; syscall-level monitor (strace) and the real elps run binary in the driver phase",
         "Sandboxes built from a model tree (sibling directories sharing a name prefix, files with unique markers and probes inside and outside, symlinks to files and directories at first/middle/last component, chains, loops, a root that is a symlink) under a temp directory; every location string to depth 3-4 over names, '.', '..', link names, absolute/relative, doubled and trailing separators, in 7 loading contexts, through LoadSource, LoadFile, LoadFileContext and nested (load-file) for RelativeFileSystemLibrary (absolute, relative and symlinked roots), FSLibrary over MapFS, os.Root, os.DirFS and a recording wrapper; a file may be served only if the model-resolved real path is under the model-resolved root and then it must be that file's marker; nothing outside may be evaluated; interpreter loads also spell the top-level request differently from the true location, and run in hop contexts where a running file loads the loader file by a relative request through a host Go builtin calling env.LoadFile / env.LoadFileContext or through its own (load-file) (also for an unconfined RelativeFileSystemLibrary, judged for relative resolution only), and a recording library wrapper requires the loading context of every nested load to be the true location returned for the loading file; the driver repeats a sub-list through the real `elps run --root-dir` binary and re-runs one worker under strace asserting no successful open of an outside file during refused loads.",
         "Bare FSLibrary{os.DirFS} built by the harness itself is counted but not judged (os.DirFS documents that it follows links; the property's fs.FS sentence concerns paths asked of the file system); invalid names forwarded to the fs.FS are counted, only data served for them would be a violation (notes/NOTES-C20.md).",
         "DESIGN.md 4/C20"),
}

ALL = ["C%02d" % i for i in range(1, 21)]
PENDING_REASON = "check not built yet in this round (planned: see DESIGN.md section 4); nothing is claimed for it"

def main():
    hooks_commits = []
    try:
        out = subprocess.run(["git", "-C", "/repo", "log", "--format=%H %s"], capture_output=True, text=True).stdout
        for line in out.splitlines():
            h, _, subj = line.partition(" ")
            if subj.startswith("verif:"):
                hooks_commits.append(h)
    except Exception:
        pass
    checks = []
    for cid in ALL:
        if cid not in CHECKS:
            continue
        cat, tech, text, note, ref = CHECKS[cid]
        exh = cid in ("C19",)
        checks.append({
            "property_id": cid,
            "quick_cmd": "./check %s --tier quick" % cid,
            "thorough_cmd": "./check %s --tier thorough" % cid,
            "evidence_file": "/verif/evidence/%s.json" % cid,
            "replay_cmd_template": "./check %s --replay {path}" % cid,
            "engine": "vcheck",
            "level_claimed": {"category": cat, "text": text, "design_ref": ref},
            "level_note": note,
            "technique": tech,
        })
    m = {
        "version": 1,
        "setup_cmd": "./tools/setup.sh",
        "hooks": {
            "guard": "verif",
            "enable": "go build -tags verif (the ./check script builds the harness module, whose go.mod replaces github.com/luthersystems/elps with /repo, with -tags verif; C09 additionally builds -race and -tags 'verif elpscheck' binaries)",
            "baseline_off_cmd": "cd /repo && GOFLAGS=-mod=mod GOPROXY=off go test -vet=off -count=1 -timeout 25m ./...",
            "source_commits": hooks_commits,
            "add_only": True,
        },
        "engines": [{
            "name": "vcheck",
            "path": "/verif/harness",
            "serves_properties": [c for c in ALL if c in CHECKS],
            "kind_free_text": "Go harness: drives the real interpreter (built from /repo's working tree with -tags verif) in child worker processes over deterministic PRNG-generated case lists; online monitors at source hooks, twin executions, independent reference models, offline log checkers, Go race detector",
        }],
        "checks": checks,
        "not_applicable": [{"property_id": c, "reason": PENDING_REASON} for c in ALL if c not in CHECKS],
        "notes": "Technique family: runtime monitoring and sanitizers.  Exit 0 = held on everything explored; exit 1 + 'VIOLATION property=<id> replay=<path>' = violation not listed in known_findings.json; exit 2 + 'INCONCLUSIVE' = watchdog/coverage floor (never folded into the others).  VERIF_SEED changes the generated case lists.",
    }
    with open(os.path.join(HERE, "MANIFEST.json"), "w") as f:
        json.dump(m, f, indent=1)
        f.write("\n")

if __name__ == "__main__":
    main()
