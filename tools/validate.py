#!/opt/veriftools/pyvenv/bin/python
import json, sys, glob, jsonschema
m = json.load(open('/verif/MANIFEST.json'))
jsonschema.validate(m, json.load(open('/root/.vp/MANIFEST.schema.json')))
es = json.load(open('/root/.vp/EVIDENCE.schema.json'))
bad = 0
for f in sorted(glob.glob('/verif/evidence/C*.json')):
    try:
        jsonschema.validate(json.load(open(f)), es)
    except Exception as e:
        bad += 1
        print("INVALID", f, str(e)[:300])
ids = [c['property_id'] for c in m['checks']] + [c['property_id'] for c in m.get('not_applicable', [])]
assert sorted(ids) == ["C%02d" % i for i in range(1, 21)], ids
print("manifest valid; checks=%d not_applicable=%d evidence_invalid=%d" % (len(m['checks']), len(m.get('not_applicable', [])), bad))
sys.exit(1 if bad else 0)
