#!/usr/bin/env python3
"""tools/archive_seed.py <id> <check> <detected:yes|after-strengthening> <key> [note]
Copies a confirmed seeded change from /tmp/seed-out-<id> into /verif/seeded/<ID>/ and writes meta.json."""
import json, os, shutil, sys, glob
sid, check, detected, key = sys.argv[1:5]
note = sys.argv[5] if len(sys.argv) > 5 else ""
src = os.environ.get("SEED_SRC", f"/tmp/seed-out-{sid}")
dst = os.environ.get("SEED_DST", "/verif/seeded/" + sid.upper().replace("-R", "-r"))
os.makedirs(dst, exist_ok=True)
shutil.copy(f"{src}/patch.diff", f"{dst}/patch.diff")
for f in glob.glob(f"{src}/*_test.go") + glob.glob(f"{src}/*.sh") + glob.glob(f"{src}/*.lisp"):
    shutil.copy(f, dst)
meta = json.load(open(f"{src}/meta.json"))
suite = ""
sd = os.environ.get("SEED_SUITE", "/var/tmp/seed-suite")
lg = f"{sd}/{sid}.log"
if os.path.exists(lg):
    t = open(lg).read()
    ok = t.count("\nok ") + (1 if t.startswith("ok ") else 0)
    fails = [l for l in t.splitlines() if l.startswith("FAIL") or l.startswith("--- FAIL")]
    suite = f"go test ./... with the patch applied: {ok} packages ok" + (f"; failures: {fails[:4]}" if fails else "; no failures")
rr = f"{sd}/{sid}.rerun.log"
if os.path.exists(rr):
    suite += "; the failing package is timing-sensitive under machine load and passed when re-run alone with the patch: " + open(rr).read().strip().splitlines()[-1]
meta["confirmed_by_me"] = {
    "how": "tools/confirm_seed2.sh (confirm_seed.sh before round 8): fresh worktree of /repo HEAD; demo passes on the clean tree; patch applies and the project builds; demo fails with the patch; " + (suite or "existing suite: see seeded/README.md"),
    "check_run": f"VERIF_REPO=<patched worktree> ./check {check} --tier quick (seed 1)",
    "detected": detected,
    "violation_key": key,
    "note": note,
}
json.dump(meta, open(f"{dst}/meta.json", "w"), indent=1)
print("archived", dst)
