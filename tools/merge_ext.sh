#!/bin/bash
# tools/merge_ext.sh <clone-dir> <Cxx> <seed-patch>: pulls an extension made by a sub-agent on a clone of /verif,
# takes the clone's copy of generated / rewritten files on conflict, regenerates MANIFEST.json, then runs the check on
# the unchanged tree (seed 1) and against the seeded patch.
set -u
CL="$1"; P="$2"; SEED="$3"
cd "$(dirname "$0")/.."
git pull --no-edit "$CL" 2>&1 | grep -E "CONFLICT|Already|Merge made|fatal|error" 
for f in $(git diff --name-only --diff-filter=U); do
  case "$f" in
    evidence/*|MANIFEST.json) git checkout --theirs "$f"; git add "$f";;
    *) echo "UNRESOLVED $f";;
  esac
done
if git diff --name-only --diff-filter=U | grep -q .; then echo "manual merge needed"; exit 1; fi
python3-vt tools/mkmanifest.py && python3-vt tools/validate.py || exit 1
git add -A; git commit -qm "Merge $CL ($P round-8 extension)" 
./check "$P" --tier quick 2>&1 | grep -E "^(VIOLATION|$P|  key=|INCON|BUILD)" | sort | uniq -c | sort -rn | head -6
tools/mutant.sh "$SEED" "$P" --tier quick 2>&1 | grep -E "key=|^$P|exit=|PATCH|BUILD" | sort | uniq -c | sort -rn | head -8
