#!/bin/bash
# tools/mutant.sh <patch.diff> <Cxx> [extra check args]
# Applies a patch to a scratch worktree of /repo (never /repo itself), runs one
# check against it, prints the verdict (VIOLATION / summary lines first, the
# KNOWN-FINDING lines after them, 40 lines at most: C19 alone prints 21 known
# findings, which used to push every VIOLATION line past the cut) and removes
# the worktree and its build.
set -u
export GOFLAGS=-mod=mod GOPROXY=off
PATCH="$(readlink -f "$1")"; PROP="$2"; shift 2
HERE="$(cd "$(dirname "$0")/.." && pwd)"
WT="/var/tmp/mut-$$"; B="/var/tmp/mutbuild-$$"; EV="/var/tmp/mutev-$$"
git -C /repo worktree add --detach "$WT" HEAD >/dev/null 2>&1 || { echo "worktree failed"; exit 3; }
cleanup() { git -C /repo worktree remove --force "$WT" >/dev/null 2>&1; rm -rf "$B" "$EV"; }
trap cleanup EXIT
if ! git -C "$WT" apply "$PATCH"; then echo "PATCH-DOES-NOT-APPLY"; exit 3; fi
( cd "$WT" && go build ./... ) || { echo "MUTANT-DOES-NOT-BUILD"; exit 3; }
VERIF_REPO="$WT" VERIF_BUILD="$B" VERIF_EVIDENCE_DIR="$EV" "$HERE/check" "$PROP" "$@" 2>&1 | grep -E "^(VIOLATION|KNOWN-FINDING|INCONCLUSIVE|C[0-9]+ |  key=|BUILD)" | cut -c1-300 | awk '/^KNOWN-FINDING/{k[++n]=$0; next} {print} END{for(i=1;i<=n;i++) print k[i]}' | head -40
echo "exit=${PIPESTATUS[0]}"
