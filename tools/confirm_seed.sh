#!/bin/bash
# tools/confirm_seed.sh <outdir> <demo-dest-relative-dir> <Cxx> [check args]
# Confirms a seeded change produced by a sub-agent:
#   1. demo passes on a clean worktree of /repo HEAD
#   2. patch applies, project builds, demo FAILS
#   3. the existing test suite (go test ./...) still passes with the patch (demo removed)
#   4. runs ./check <Cxx> against the patched worktree and reports the verdict
# Everything happens in a scratch worktree that is removed afterwards.
set -u
export GOFLAGS=-mod=mod GOPROXY=off
OUT="$1"; DEST="$2"; PROP="$3"; shift 3
HERE="$(cd "$(dirname "$0")/.." && pwd)"
WT="/var/tmp/confirm-$$"; B="/var/tmp/confirmbuild-$$"; EV="/var/tmp/confirmev-$$"
git -C /repo worktree add --detach "$WT" HEAD >/dev/null 2>&1 || { echo "worktree failed"; exit 3; }
cleanup() { git -C /repo worktree remove --force "$WT" >/dev/null 2>&1; rm -rf "$B" "$EV"; }
trap cleanup EXIT
DEMO=$(ls "$OUT"/*_test.go 2>/dev/null | head -1)
[ -n "$DEMO" ] || { echo "NO-DEMO-TEST"; exit 3; }
cp "$DEMO" "$WT/$DEST/"
NAME=$(basename "$DEMO")
echo "--- demo on clean tree"
( cd "$WT" && go test -count=1 -run 'Seed|Demo|ZZ|Zz' "./$DEST/" 2>&1 | tail -3 )
CLEAN=${PIPESTATUS[0]}
git -C "$WT" apply "$OUT/patch.diff" || { echo "PATCH-DOES-NOT-APPLY"; exit 3; }
( cd "$WT" && go build ./... ) || { echo "DOES-NOT-BUILD"; exit 3; }
echo "--- demo with patch"
( cd "$WT" && go test -count=1 -run 'Seed|Demo|ZZ|Zz' "./$DEST/" 2>&1 | tail -6 )
rm -f "$WT/$DEST/$NAME"
if [ "${SKIP_SUITE:-0}" != 1 ]; then
  echo "--- existing suite with patch"
  ( cd "$WT" && go test -vet=off -count=1 -timeout 40m ./... 2>&1 | grep -v "^ok\|no test files" | head -12 )
fi
echo "--- check $PROP against patched tree"
VERIF_REPO="$WT" VERIF_BUILD="$B" VERIF_EVIDENCE_DIR="$EV" "$HERE/check" "$PROP" "$@" 2>&1 | grep -E "^(VIOLATION|INCONCLUSIVE|C[0-9]+ |  |BUILD)" | cut -c1-400 | head -12
