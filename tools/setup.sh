#!/bin/bash
# Run once after a fresh restore, offline: pre-builds the harness binaries so
# the first check does not pay for the cold build.
export GOFLAGS=-mod=mod GOPROXY=off
cd "$(dirname "$0")/.."
./check --build-only all-race >/dev/null 2>&1 || true
./check C09 --build-only >/dev/null 2>&1 || true
exit 0
