#!/bin/bash
# tools/confirm_seed2.sh <sid e.g. c04-r8> [check args]
# Like confirm_seed.sh, for the round-8 layout (/tmp/seed-out-<sid>/meta.json names demo_pkg_dir);
# keeps the raw suite output in $SEED_SUITE/<sid>.log (read by archive_seed.py) and a summary in <sid>.confirm.log.
set -u
export GOFLAGS=-mod=mod GOPROXY=off
SID="$1"; shift
OUT="${SEED_SRC:-/tmp/seed-out-$SID}"
PROP=$(echo "${SID%%-*}" | tr a-z A-Z)
HERE="$(cd "$(dirname "$0")/.." && pwd)"
SD="${SEED_SUITE:-/var/tmp/seed-suite}"; mkdir -p "$SD"
SUM="$SD/$SID.confirm.log"; : > "$SUM"
DEST=$(python3 -c "import json,sys;print(json.load(open('$OUT/meta.json'))['demo_pkg_dir'].strip('./'))")
WT="/var/tmp/confirm-$SID"; B="/var/tmp/confirmbuild-$SID"; EV="/var/tmp/confirmev-$SID"
git -C /repo worktree add --detach "$WT" HEAD >/dev/null 2>&1 || { echo "worktree failed" | tee -a "$SUM"; exit 3; }
cleanup() { git -C /repo worktree remove --force "$WT" >/dev/null 2>&1; rm -rf "$B" "$EV"; }
trap cleanup EXIT
cp "$OUT"/zz_seed_demo_test.go "$WT/$DEST/" || { echo NO-DEMO | tee -a "$SUM"; exit 3; }
( cd "$WT" && go test -vet=off -count=1 -run 'TestSeedDemo' "./$DEST/" >"$SD/$SID.demo-clean.log" 2>&1 ); CLEAN=$?
echo "demo-on-clean-tree exit=$CLEAN (want 0)" | tee -a "$SUM"
git -C "$WT" apply "$OUT/patch.diff" || { echo "PATCH-DOES-NOT-APPLY" | tee -a "$SUM"; exit 3; }
if git -C "$WT" diff --name-only | grep -E '_test\.go$|^docs/|testdata|verif_o' ; then echo "PATCH-TOUCHES-TESTS-OR-HOOKS" | tee -a "$SUM"; fi
( cd "$WT" && go build ./... ) || { echo "DOES-NOT-BUILD" | tee -a "$SUM"; exit 3; }
( cd "$WT" && go test -vet=off -count=1 -run 'TestSeedDemo' "./$DEST/" >"$SD/$SID.demo-patched.log" 2>&1 ); WITH=$?
echo "demo-with-patch exit=$WITH (want 1)" | tee -a "$SUM"
grep -m3 -- "--- FAIL" "$SD/$SID.demo-patched.log" | tee -a "$SUM"
rm -f "$WT/$DEST/zz_seed_demo_test.go"
if [ "${SKIP_CHECK:-0}" != 1 ]; then
  VERIF_REPO="$WT" VERIF_BUILD="$B" VERIF_EVIDENCE_DIR="$EV" "$HERE/check" "$PROP" --tier quick "$@" >"$SD/$SID.check.log" 2>&1
  echo "check exit=$?" | tee -a "$SUM"
  grep -E "^(VIOLATION|INCONCLUSIVE|C[0-9]+ |BUILD)" "$SD/$SID.check.log" | cut -c1-300 | head -8 | tee -a "$SUM"
  grep -E "^  key=" "$SD/$SID.check.log" | cut -c1-300 | sort | uniq -c | sort -rn | head -8 | tee -a "$SUM"
fi
if [ "${SKIP_SUITE:-0}" != 1 ]; then
  ( cd "$WT" && go test -vet=off -count=1 -timeout 40m ./... >"$SD/$SID.log" 2>&1 ); echo "suite exit=$?" | tee -a "$SUM"
  grep -E "^(FAIL|--- FAIL|panic)" "$SD/$SID.log" | head -6 | tee -a "$SUM"
fi
