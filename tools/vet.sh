#!/bin/bash
# vet/build the harness the same way ./check does (modfile in .build)
export GOFLAGS=-mod=mod GOPROXY=off
HERE="$(cd "$(dirname "$0")/.." && pwd)"
mkdir -p "$HERE/.build"; cp /repo/go.sum "$HERE/.build/go.sum"; [ -f "$HERE/.build/go.mod" ] || cp "$HERE/harness/go.mod" "$HERE/.build/go.mod"
cd "$HERE/harness" && go vet -modfile="$HERE/.build/go.mod" -tags verif "${@:-./...}"
